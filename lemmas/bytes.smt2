; Byte-level identities the verification-condition generator relies on when it
; encodes integers into byte arrays (unsafe views) and decodes them again.
(set-logic ALL)
(define-fun byte ((u Int) (j Int)) Int (mod (div u j) 256))

;; GOAL le_recompose_1
(declare-fun u () Int)
(assert (and (<= 0 u) (< u 256)))
(assert (not (= (byte u 1) u)))

;; GOAL le_recompose_2
(declare-fun u () Int)
(assert (and (<= 0 u) (< u 65536)))
(assert (not (= (+ (byte u 1) (* 256 (byte u 256))) u)))

;; GOAL le_recompose_4
(declare-fun u () Int)
(assert (and (<= 0 u) (< u 4294967296)))
(assert (not (= (+ (byte u 1) (* 256 (byte u 256)) (* 65536 (byte u 65536)) (* 16777216 (byte u 16777216))) u)))

;; GOAL le_decode_range_4
; four bytes put together are a 32-bit number
(declare-fun b0 () Int) (declare-fun b1 () Int) (declare-fun b2 () Int) (declare-fun b3 () Int)
(assert (and (<= 0 b0) (< b0 256) (<= 0 b1) (< b1 256) (<= 0 b2) (< b2 256) (<= 0 b3) (< b3 256)))
(assert (not (and (<= 0 (+ b0 (* 256 b1) (* 65536 b2) (* 16777216 b3))) (< (+ b0 (* 256 b1) (* 65536 b2) (* 16777216 b3)) 4294967296))))
