; Bit-operation axioms used over Int (uninterpreted bvand_w / bvor_w) are re-proved
; here over bit-vectors on every run. The step from the bit-vector fact to the
; integer axiom (the functions are the bit-vector operations on the unsigned
; representation) is the trusted part.
(set-logic QF_BV)

;; GOAL and_disjoint_4_w8
(declare-fun a () (_ BitVec 8)) (declare-fun b () (_ BitVec 8))
(assert (= (bvurem a #x10) #x00)) (assert (bvult b #x10))
(assert (not (= (bvand a b) #x00)))

;; GOAL or_is_sum_when_disjoint_4_w8
(declare-fun a () (_ BitVec 8)) (declare-fun b () (_ BitVec 8))
(assert (= (bvurem a #x10) #x00)) (assert (bvult b #x10))
(assert (not (= (bvor a b) (bvadd a b))))

;; GOAL and_disjoint_8_w32
(declare-fun a () (_ BitVec 32)) (declare-fun b () (_ BitVec 32))
(assert (= (bvurem a #x00000100) #x00000000)) (assert (bvult b #x00000100))
(assert (not (= (bvand a b) #x00000000)))

;; GOAL and_disjoint_16_w32
(declare-fun a () (_ BitVec 32)) (declare-fun b () (_ BitVec 32))
(assert (= (bvurem a #x00010000) #x00000000)) (assert (bvult b #x00010000))
(assert (not (= (bvand a b) #x00000000)))

;; GOAL or_plus_and_is_sum_w32
(declare-fun a () (_ BitVec 32)) (declare-fun b () (_ BitVec 32))
(assert (not (= (bvadd (bvor a b) (bvand a b)) (bvadd a b))))

;; GOAL and_le_both_w32
(declare-fun a () (_ BitVec 32)) (declare-fun b () (_ BitVec 32))
(assert (not (and (bvule (bvand a b) a) (bvule (bvand a b) b))))

;; GOAL or_ge_both_w32
(declare-fun a () (_ BitVec 32)) (declare-fun b () (_ BitVec 32))
(assert (not (and (bvuge (bvor a b) a) (bvuge (bvor a b) b))))

;; GOAL shl_by_4_is_times_16_w8
(declare-fun a () (_ BitVec 8))
(assert (not (= (bvshl a #x04) (bvmul a #x10))))

;; GOAL bit_of_zero_w32
(declare-fun j () (_ BitVec 32))
(assert (not (= (bvand (bvlshr #x00000000 j) #x00000001) #x00000000)))

;; GOAL bit_of_or_pow2_w32
(declare-fun a () (_ BitVec 32)) (declare-fun k () (_ BitVec 32)) (declare-fun j () (_ BitVec 32))
(assert (bvult k #x00000020)) (assert (bvult j #x00000020))
(assert (not (= (= (bvand (bvlshr (bvor a (bvshl #x00000001 k)) j) #x00000001) #x00000001)
                (or (= (bvand (bvlshr a j) #x00000001) #x00000001) (= j k)))))
