; Level-2 lemmas for the Reassembler (C01, C02, C03, C10, C19).
; Each ";; GOAL" section together with the preamble must be unsat.
; The spec functions less/dist/after/fLost/fHW are NOT transcribed here: the
; USE-SPEC line makes the verifier emit them from the //@ text in
; /repo/reassembler_contracts_verif.go, the same text Level 1 uses.
(set-logic ALL)
;; USE-SPEC . less dist after fHW fLost

; ---------------------------------------------------------------------------
; window offsets
(define-fun u32 ((x Int)) Bool (and (<= 0 x) (< x 4294967296)))
(define-fun off ((x Int) (w Int)) Int (mod (- x w) 4294967296))
(define-fun inwin ((x Int) (w Int)) Bool (< (off x w) 16777216))

;; GOAL C02_less_is_offset_order_in_window
; inside one 2^24 window (possibly straddling 2^32-1 -> 0) the comparison used
; by the sorter is exactly the order of the offsets from the window base: hence
; irreflexive, transitive and total on distinct numbers (a strict total order),
; which is the premise of the assumed sort.Sort contract.
(declare-fun a () Int) (declare-fun b () Int) (declare-fun w () Int)
(assert (and (u32 a) (u32 b) (u32 w) (inwin a w) (inwin b w)))
(assert (not (= (spec_less a b) (< (off a w) (off b w)))))

;; GOAL C02_offsets_identify_numbers
(declare-fun a () Int) (declare-fun b () Int) (declare-fun w () Int)
(assert (and (u32 a) (u32 b) (u32 w) (inwin a w) (inwin b w)))
(assert (= (off a w) (off b w)))
(assert (not (= a b)))

;; GOAL C02_delivery_order
; CleanUp evicts a prefix of a table that is Sorted (Put/CleanUp posts), and
; everything evicted is less than everything that stays (CleanUp post). So if an
; event e2 is delivered after e1 and e2 is before e1 in roll-over order, e2 cannot
; have been in the table when e1 was evicted: e2's first record was pushed after
; e1 had been delivered. Here: x was evicted, y was buffered at that time, both in
; the window; then x is less than y, so y cannot be less than x.
(declare-fun x () Int) (declare-fun y () Int) (declare-fun w () Int)
(assert (and (u32 x) (u32 y) (u32 w) (inwin x w) (inwin y w)))
(assert (spec_less x y))
(assert (spec_less y x))

; ---------------------------------------------------------------------------
;; GOAL C03_step_adds_exactly_the_gap
; one eviction with the mark set: an in-order number adds exactly the count of
; numbers strictly between the mark and it (roll-over aware) and that is >= 0;
; the number right after the mark adds 0.
(declare-fun s () Int) (declare-fun hw () Int)
(assert (and (u32 s) (u32 hw)))
(assert (spec_after s hw))
(assert (not (and (>= (- (spec_dist s hw) 1) 0)
                  (= (- (spec_dist s hw) 1) (mod (- (- s hw) 1) 4294967296))
                  (=> (= s (mod (+ hw 1) 4294967296)) (= (- (spec_dist s hw) 1) 0)))))

;; GOAL C03_late_or_duplicate_is_not_after
; a number equal to the mark, or behind it by less than a window, is not "after"
(declare-fun s () Int) (declare-fun hw () Int)
(assert (and (u32 s) (u32 hw)))
(assert (or (= s hw) (and (not (= s hw)) (<= (spec_dist hw s) 16777215))))
(assert (spec_after s hw))

;; GOAL C03_fold_unfolds_one_step
; fLost/fHW at p+1 are fLost/fHW at p plus the step for a[p] (definition check:
; the fold Level 1 proves is the fold of the step above, one eviction at a time)
(declare-fun a () (Array Int Int)) (declare-fun p () Int) (declare-fun lo0 () Int)
(declare-fun hw0 () Int) (declare-fun set0 () Bool)
(assert (>= p lo0))
(define-fun isset () Bool (or set0 (> p lo0)))
(define-fun hwp () Int (rec_fHW p a lo0 hw0 set0))
(assert (not (and
  (= (rec_fLost (+ p 1) a lo0 hw0 set0)
     (+ (rec_fLost p a lo0 hw0 set0) (ite (and isset (spec_after (select a p) hwp)) (- (spec_dist (select a p) hwp) 1) 0)))
  (= (rec_fHW (+ p 1) a lo0 hw0 set0)
     (ite (or (not isset) (spec_after (select a p) hwp)) (select a p) hwp)))))

;; GOAL C03_fold_composes_step
; induction step of: folding positions [lo0,p) equals folding [lo0,m) and then
; [m,p) from the state reached at m  (so the per-call counts reported by
; successive CleanUp/Clear calls add up to the fold over the whole delivered
; sequence). Hypothesis at p, goal at p+1.
(declare-fun a () (Array Int Int)) (declare-fun p () Int) (declare-fun m () Int) (declare-fun lo0 () Int)
(declare-fun hw0 () Int) (declare-fun set0 () Bool)
(assert (and (<= lo0 m) (<= m p)))
(define-fun hwm () Int (rec_fHW m a lo0 hw0 set0))
(define-fun setm () Bool (or set0 (> m lo0)))
(assert (= (rec_fLost p a lo0 hw0 set0) (+ (rec_fLost m a lo0 hw0 set0) (rec_fLost p a m hwm setm))))
(assert (= (rec_fHW p a lo0 hw0 set0) (rec_fHW p a m hwm setm)))
(assert (not (and
  (= (rec_fLost (+ p 1) a lo0 hw0 set0) (+ (rec_fLost m a lo0 hw0 set0) (rec_fLost (+ p 1) a m hwm setm)))
  (= (rec_fHW (+ p 1) a lo0 hw0 set0) (rec_fHW (+ p 1) a m hwm setm)))))

;; GOAL C03_fold_composes_base
(declare-fun a () (Array Int Int)) (declare-fun m () Int) (declare-fun lo0 () Int)
(declare-fun hw0 () Int) (declare-fun set0 () Bool)
(assert (<= lo0 m))
(define-fun hwm () Int (rec_fHW m a lo0 hw0 set0))
(define-fun setm () Bool (or set0 (> m lo0)))
(assert (not (and
  (= (rec_fLost m a lo0 hw0 set0) (+ (rec_fLost m a lo0 hw0 set0) (rec_fLost m a m hwm setm)))
  (= (rec_fHW m a lo0 hw0 set0) (rec_fHW m a m hwm setm)))))

;; GOAL C03_no_gap_no_report
; a stream without gaps (every evicted number is the successor of the mark)
; adds nothing at any step, so lost stays 0 and EventsLost is not called
; (callback post: called iff lost > 0). Induction step.
(declare-fun a () (Array Int Int)) (declare-fun p () Int) (declare-fun lo0 () Int)
(declare-fun hw0 () Int) (declare-fun set0 () Bool)
(assert (>= p lo0))
(assert (u32 hw0))
(assert (forall ((k Int)) (u32 (select a k))))
(assert (= (rec_fLost p a lo0 hw0 set0) 0))
(assert (=> (or set0 (> p lo0)) (= (select a p) (mod (+ (rec_fHW p a lo0 hw0 set0) 1) 4294967296))))
(assert (u32 (rec_fHW p a lo0 hw0 set0)))
(assert (not (= (rec_fLost (+ p 1) a lo0 hw0 set0) 0)))

;; PREAMBLE
; ---------------------------------------------------------------------------
; C01: exactly-once, by a history invariant over an abstract state whose
; transitions are the Level-1 postconditions of Put (three cases), of one
; eviction (CleanUp/Clear post: the event leaves both seqs and events before it is
; handed to callback) and of callback (one ReassemblyComplete per evicted event).
;   tbl s      : sequence s is buffered          evOf s : its event (when buffered)
;   live e     : event e is in the table         done e : e has been delivered
;   n e        : number of records of e          rec e i: its i-th record (a push id)
;   home p     : event a pushed non-EOE record was filed in,  idx p : at which index
;   pushed p   : push id p has happened and was not an EOE
(declare-sort Ev 0)
(declare-sort Push 0)
(define-fun Inv ((tbl (Array Int Bool)) (evOf (Array Int Ev)) (live (Array Ev Bool)) (done (Array Ev Bool))
                 (n (Array Ev Int)) (rec (Array Ev (Array Int Push))) (seqOf (Array Ev Int))
                 (pushed (Array Push Bool)) (home (Array Push Ev)) (idx (Array Push Int)) (pseq (Array Push Int))) Bool
  (and
    ; every pushed record sits in exactly the slot (home, idx) and carries its event's sequence
    (forall ((p Push)) (=> (select pushed p)
       (and (or (select live (select home p)) (select done (select home p)))
            (<= 0 (select idx p)) (< (select idx p) (select n (select home p)))
            (= (select (select rec (select home p)) (select idx p)) p)
            (= (select pseq p) (select seqOf (select home p))))))
    ; every slot of every created event holds a pushed record whose home is that slot (nothing else is delivered, nothing twice)
    (forall ((e Ev) (i Int)) (=> (and (or (select live e) (select done e)) (<= 0 i) (< i (select n e)))
       (and (select pushed (select (select rec e) i))
            (= (select home (select (select rec e) i)) e)
            (= (select idx (select (select rec e) i)) i))))
    ; an event is in the table or delivered, never both
    (forall ((e Ev)) (not (and (select live e) (select done e))))
    ; the table maps buffered sequences to live events, one event per sequence
    (forall ((s Int)) (=> (select tbl s) (and (select live (select evOf s)) (= (select seqOf (select evOf s)) s))))
    (forall ((e Ev)) (=> (select live e) (and (select tbl (select seqOf e)) (= (select evOf (select seqOf e)) e))))))

(declare-fun tbl () (Array Int Bool)) (declare-fun evOf () (Array Int Ev)) (declare-fun live () (Array Ev Bool))
(declare-fun done () (Array Ev Bool)) (declare-fun n () (Array Ev Int)) (declare-fun rec () (Array Ev (Array Int Push)))
(declare-fun seqOf () (Array Ev Int)) (declare-fun pushed () (Array Push Bool)) (declare-fun home () (Array Push Ev))
(declare-fun idx () (Array Push Int)) (declare-fun pseq () (Array Push Int))

;; GOAL C01_inv_put_new_event
; Put, record is not an EOE, sequence not buffered: a fresh event with exactly this record
(declare-fun p0 () Push) (declare-fun s0 () Int) (declare-fun e0 () Ev)
(assert (Inv tbl evOf live done n rec seqOf pushed home idx pseq))
(assert (not (select pushed p0)))                       ; a new push
(assert (not (select tbl s0)))
(assert (and (not (select live e0)) (not (select done e0))))   ; fresh(event)
(assert (forall ((q Push)) (=> (select pushed q) (not (= (select home q) e0)))))  ; nothing refers to a fresh event
(assert (not (Inv (store tbl s0 true) (store evOf s0 e0) (store live e0 true) done
                  (store n e0 1) (store rec e0 (store (select rec e0) 0 p0)) (store seqOf e0 s0)
                  (store pushed p0 true) (store home p0 e0) (store idx p0 0) (store pseq p0 s0))))

;; GOAL C01_inv_put_existing_event
; Put, record is not an EOE, sequence buffered: same event, msgs == old ++ [record]
(declare-fun p0 () Push) (declare-fun s0 () Int)
(assert (Inv tbl evOf live done n rec seqOf pushed home idx pseq))
(assert (not (select pushed p0)))
(assert (select tbl s0))
(define-fun e0 () Ev (select evOf s0))
(assert (>= (select n e0) 0))
(assert (not (Inv tbl evOf live done
                  (store n e0 (+ (select n e0) 1)) (store rec e0 (store (select rec e0) (select n e0) p0)) seqOf
                  (store pushed p0 true) (store home p0 e0) (store idx p0 (select n e0)) (store pseq p0 s0))))

;; GOAL C01_inv_evict
; one eviction: the event leaves the table and is delivered (its records are frozen
; from then on: no transition changes n/rec of an event that is not live)
(declare-fun s0 () Int)
(assert (Inv tbl evOf live done n rec seqOf pushed home idx pseq))
(assert (select tbl s0))
(define-fun e0 () Ev (select evOf s0))
(assert (not (Inv (store tbl s0 false) evOf (store live e0 false) (store done e0 true) n rec seqOf pushed home idx pseq)))

;; GOAL C01_exactly_once_when_table_empty
; after Close the table is empty (Clear post), so every pushed non-EOE record is in
; exactly one delivered event, at one index, and that event carries its sequence
(declare-fun p0 () Push)
(assert (Inv tbl evOf live done n rec seqOf pushed home idx pseq))
(assert (forall ((s Int)) (not (select tbl s))))
(assert (select pushed p0))
(assert (not (and (select done (select home p0))
                  (= (select (select rec (select home p0)) (select idx p0)) p0)
                  (= (select seqOf (select home p0)) (select pseq p0))
                  (forall ((e Ev) (i Int)) (=> (and (select done e) (<= 0 i) (< i (select n e)) (= (select (select rec e) i) p0))
                                               (and (= e (select home p0)) (= i (select idx p0))))))))

;; GOAL C01_only_pushed_records_are_delivered
(declare-fun e1 () Ev) (declare-fun i1 () Int)
(assert (Inv tbl evOf live done n rec seqOf pushed home idx pseq))
(assert (and (select done e1) (<= 0 i1) (< i1 (select n e1))))
(assert (not (and (select pushed (select (select rec e1) i1)) (= (select pseq (select (select rec e1) i1)) (select seqOf e1)))))

; ---------------------------------------------------------------------------
;; GOAL C10_eviction_causes_cover_the_predicate
; the three causes named by the property are exactly the disjuncts proved for every
; evicted event at Level 1 (complete, more than maxInFlight buffered, expired); with
; a timeout in the far future (expireTime >= every clock reading) the third is excluded
(declare-fun complete () Bool) (declare-fun sizeBefore () Int) (declare-fun maxSize () Int)
(declare-fun expire () Int) (declare-fun clock () Int)
(assert (or complete (> sizeBefore maxSize) (< expire clock)))
(assert (>= expire clock))
(assert (not (or complete (> sizeBefore maxSize))))

;; GOAL C19_expired_head_is_evicted_not_before_time
; CleanUp post: the remaining head is not expired at the last clock reading; an
; eviction whose only cause is time has expireTime < some reading <= now, and
; expireTime = creation reading + timeout (Put post), so now - creation > timeout
(declare-fun created () Int) (declare-fun timeout () Int) (declare-fun now () Int)
(assert (< (+ created timeout) now))
(assert (not (> (- now created) timeout)))
