; Level-2 lemma for C06: the syscall mask has exactly the bits of the requested
; syscalls. Level 1 proves (on the real toAuditRuleData) that word w of the mask
; equals maskWord(syscalls, lo, n, w); here, by induction on n, bit j of that
; word is set iff 32*w+j is one of the n syscalls. maskWord is not transcribed:
; USE-SPEC emits it from the //@ text in /repo/rule/contracts_verif.go.
(set-logic ALL)
;; USE-SPEC rule maskWord

; bit j of a 32-bit word; the two facts about it are proved over bit-vectors in
; lemmas/bitops.smt2 (bit_of_zero_w32, bit_of_or_pow2_w32); reading bvor_32 and
; pow2 as the bit-vector operations on the unsigned value is the trusted step.
(declare-fun bit (Int Int) Bool)
(assert (forall ((j Int)) (! (not (bit 0 j)) :pattern ((bit 0 j)))))
(assert (forall ((a Int) (k Int) (j Int)) (! (=> (and (<= 0 a) (< a 4294967296) (<= 0 k) (< k 32) (<= 0 j) (< j 32))
   (= (bit (bvor_32 a (pow2 k)) j) (or (bit a j) (= j k)))) :pattern ((bit (bvor_32 a (pow2 k)) j)))))
; n is one of the first k elements of s (from position b)
(declare-fun mem ((Array Int Int) Int Int Int) Bool)
(assert (forall ((s (Array Int Int)) (b Int) (k Int) (n Int)) (! (= (mem s b k n) (and (> k 0) (or (= (select s (+ b (- k 1))) n) (mem s b (- k 1) n)))) :pattern ((mem s b k n)))))

;; GOAL C06_mask_bits_base
(declare-fun s () (Array Int Int)) (declare-fun b () Int) (declare-fun k () Int) (declare-fun w () Int) (declare-fun j () Int)
(assert (<= k 0))
(assert (not (and (= (rec_maskWord s b k w) 0) (= (bit (rec_maskWord s b k w) j) (mem s b k (+ (* 32 w) j))))))

;; GOAL C06_mask_word_in_range_step
(declare-fun s () (Array Int Int)) (declare-fun b () Int) (declare-fun k () Int) (declare-fun w () Int)
(assert (> k 0))
(assert (and (<= 0 (select s (+ b (- k 1)))) (< (select s (+ b (- k 1))) 4294967296)))
(assert (and (<= 0 (rec_maskWord s b (- k 1) w)) (< (rec_maskWord s b (- k 1) w) 4294967296)))
(assert (not (and (<= 0 (rec_maskWord s b k w)) (< (rec_maskWord s b k w) 4294967296))))

;; GOAL C06_mask_bits_step
(declare-fun s () (Array Int Int)) (declare-fun b () Int) (declare-fun k () Int) (declare-fun w () Int) (declare-fun j () Int)
(assert (and (> k 0) (<= 0 j) (< j 32) (<= 0 w)))
(assert (and (<= 0 (select s (+ b (- k 1)))) (< (select s (+ b (- k 1))) 4294967296)))
(assert (and (<= 0 (rec_maskWord s b (- k 1) w)) (< (rec_maskWord s b (- k 1) w) 4294967296)))
(assert (= (bit (rec_maskWord s b (- k 1) w) j) (mem s b (- k 1) (+ (* 32 w) j))))
(assert (not (= (bit (rec_maskWord s b k w) j) (mem s b k (+ (* 32 w) j)))))
