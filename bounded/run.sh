#!/bin/bash
# bounded/run.sh <package dir relative to /repo> <test file in /verif/bounded> <TestName> [timeout]
# Runs a bounded stand-in inside the real package through `go test -overlay` (nothing is written into /repo).
# The test prints "BOUNDED-CASES <n>" and "BOUNDED-FAIL <class> <detail>" lines.
set -u
pkg=$1; file=$2; name=$3; to=${4:-600s}
repo=${VERIF_REPO:-/repo}
here="$(cd "$(dirname "$0")" && pwd)"
tmp=$(mktemp -d); trap 'rm -rf "$tmp"' EXIT
cp "$here/$file" "$tmp/zz_bounded_test.go"
printf '{"Replace": {"%s/%s/zz_bounded_test.go": "%s/zz_bounded_test.go"}}' "$repo" "$pkg" "$tmp" > "$tmp/ov.json"
cd "$repo/$pkg" && GOFLAGS=-mod=mod GOPROXY=off GOSUMDB=off GOTOOLCHAIN=local go test -overlay "$tmp/ov.json" -vet=off -count=1 -timeout "$to" -run "^${name}\$" -v . 2>&1 | grep -a "BOUNDED-\|^--- FAIL\|^FAIL\|^ok\|panic:" | head -200
exit ${PIPESTATUS[0]}
