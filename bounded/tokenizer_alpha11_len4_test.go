package auparse

// Bounded stand-in for the tokenizer (extractKeyValuePairs + kvRegex), which no
// contract within reach can decide: values over an 11-symbol alphabet that
// contains every syntactically special byte, up to length 4, written the way
// the kernel writes them (audit_log_untrustedstring: quoted when safe,
// upper-case hex otherwise), for every decoded key; Data() must give the
// original value back, plain fields must be unchanged and only placeholder
// values may be dropped. Bound: alphabet 11, length 0..4 (16 105 values) x 7 keys, plus the placeholder
// neighbourhood: alphabet { , ? a space }, length 0..5 (1 365 values) and 9 explicit near-misses of (null).

import (
	"fmt"
	"os"
	"strings"
	"testing"
)

func kernelEncode(v string) string {
	safe := true
	for i := 0; i < len(v); i++ {
		if v[i] < 0x21 || v[i] > 0x7e || v[i] == '"' {
			safe = false
		}
	}
	if safe {
		return `"` + v + `"`
	}
	return strings.ToUpper(fmt.Sprintf("%x", v))
}

func TestBoundedTokenizerAlpha11Len4(t *testing.T) {
	alphabet := []byte{'"', '\'', '=', ' ', '\\', 0x01, 0x7f, 0x80, 0xff, 'a', 'A'}
	type keyCase struct {
		typ, key, pre string
	}
	keys := []keyCase{
		{"SYSCALL", "exe", "arch=c000003e syscall=59 success=yes exit=0 pid=1 "},
		{"PROCTITLE", "proctitle", ""},
		{"USER_CMD", "cmd", "pid=1 "},
		{"TTY", "data", "pid=1 "},
		{"PATH", "name", "item=0 "},
		{"CWD", "cwd", ""},
		{"EXECVE", "a0", "argc=1 "},
	}
	var values []string
	var gen func(prefix string, n int)
	gen = func(prefix string, n int) {
		values = append(values, prefix)
		if n == 0 {
			return
		}
		for _, c := range alphabet {
			gen(prefix+string([]byte{c}), n-1)
		}
	}
	maxLen := 4
	if os.Getenv("VERIF_TIER") == "thorough" {
		maxLen = 6 // 1 948 717 values x 7 keys
	}
	gen("", maxLen)
	// the neighbourhood of the placeholder values (?  ?,  (null)  empty): every string over { , ? a space } up to length 5
	// and a few explicit near-misses, so that a placeholder test that is slightly too wide drops a real value here
	alphabet = []byte{',', '?', 'a', ' '}
	gen("", 5)
	values = append(values, "(null)", "(null),", "(null", "null)", "(null)a", "a(null)", "?,?", ",(null)", "(NULL)")
	cases := 0
	reported := map[string]bool{}
	fail := func(class, format string, a ...interface{}) {
		if !reported[class] {
			reported[class] = true
			fmt.Printf("BOUNDED-FAIL %s %s\n", class, fmt.Sprintf(format, a...))
		}
	}
	for _, v := range values {
		if len(v) > 0 {
			f, l := v[0], v[len(v)-1]
			if f == '"' || f == '\'' || l == '"' || l == '\'' || l == '\\' {
				continue // excluded by the property: normalised by design
			}
		}
		for _, kc := range keys {
			cases++
			line := fmt.Sprintf("type=%s msg=audit(1.000:1): %s%s=%s tail=x", kc.typ, kc.pre, kc.key, kernelEncode(v))
			msg, err := ParseLogLine(line)
			if err != nil {
				fail("parse/"+kc.key, "%q: %v", line, err)
				continue
			}
			data, err := msg.Data()
			if err != nil {
				fail("data-error/"+kc.key, "%q: %v", line, err)
				continue
			}
			got, present := data[kc.key]
			trimmed := strings.Trim(v, `'" `)
			placeholder := trimmed == "" || trimmed == "?" || trimmed == "?," || trimmed == "(null)"
			quoted := strings.HasPrefix(kernelEncode(v), `"`)
			switch {
			case quoted && placeholder:
				if present {
					fail("placeholder-kept/"+kc.key, "%q gives %q", line, got)
				}
			case !present:
				fail("dropped/"+kc.key, "%q: key absent, value %q", line, v)
			case got != v:
				fail("value/"+kc.key, "%q: got %q want %q", line, got, v)
			}
			if data["tail"] != "x" {
				fail("plain-field/"+kc.key, "%q: tail=%q", line, data["tail"])
			}
		}
	}
	fmt.Printf("BOUNDED-CASES %d\n", cases)
}
