package auparse

// Bounded stand-in (exhaustive): every one of the 65536 record type codes
// converts to a name and back to the same number, through String /
// GetAuditMessageType and through MarshalText / UnmarshalText.

import (
	"fmt"
	"testing"
)

func TestBoundedTypeNamesAll65536(t *testing.T) {
	cases := 0
	bad := map[string]int{}
	for n := 0; n < 65536; n++ {
		typ := AuditMessageType(n)
		name := typ.String()
		back, err := GetAuditMessageType(name)
		cases++
		if err != nil || back != typ {
			if bad["string-roundtrip"] == 0 {
				fmt.Printf("BOUNDED-FAIL string-roundtrip code %d -> %q -> %v (%v)\n", n, name, back, err)
			}
			bad["string-roundtrip"]++
		}
		txt, err := typ.MarshalText()
		var u AuditMessageType
		if err == nil {
			err = u.UnmarshalText(txt)
		}
		cases++
		if err != nil || u != typ {
			if bad["text-roundtrip"] == 0 {
				fmt.Printf("BOUNDED-FAIL text-roundtrip code %d -> %q -> %v (%v)\n", n, txt, u, err)
			}
			bad["text-roundtrip"]++
		}
	}
	fmt.Printf("BOUNDED-CASES %d\n", cases)
}
