package aucoalesce

// Bounded stand-ins for C15 / C09 (package-internal, run through go test -overlay).
//
// TestBoundedTablesWellFormed: exhaustive over the normalisation tables as they
// are after init (the embedded YAML decoded by the production decoder): every
// entry is non-nil, its path index is not negative (the precondition tablesOK of
// the CoalesceMessages contract), and every shared ECS category/type slice has
// cap == len, so that append() on a copy of the slice header never writes into
// the shared backing array.
//
// TestBoundedCoalesceCorpus: every event group of the repository's aucoalesce
// corpus (testdata/*.yaml) plus synthetic groups (colliding keys, unusual record
// orders, all 65 536 st_mode values on the selected PATH record): Data() / Tags()
// / ToMapStr() of every input message are the same before and after coalescing,
// coalescing the same messages again gives an equal event, every key/value of
// every record is somewhere in the event or a warning is attached, and the file
// summary mirrors the PATH record. Bound: that corpus.

import (
	"encoding/json"
	"fmt"
	"os"
	"path/filepath"
	"reflect"
	"sort"
	"strconv"
	"strings"
	"testing"

	"gopkg.in/yaml.v3"

	"github.com/elastic/go-libaudit/v2/auparse"
)

func bfail(reported map[string]bool, class, format string, a ...interface{}) {
	if !reported[class] {
		reported[class] = true
		fmt.Printf("BOUNDED-FAIL %s %s\n", class, fmt.Sprintf(format, a...))
	}
}

func TestBoundedTablesWellFormed(t *testing.T) {
	reported := map[string]bool{}
	cases := 0
	check := func(where string, n *Normalization) {
		cases++
		if n == nil {
			bfail(reported, "nil-entry", "%s is nil", where)
			return
		}
		if n.ObjectPathIndex < 0 {
			bfail(reported, "negative-path-index", "%s has path_index %d", where, n.ObjectPathIndex)
		}
		for name, s := range map[string][]string{"category": n.ECS.Category.Values, "type": n.ECS.Type.Values} {
			if cap(s) != len(s) {
				bfail(reported, "shared-slice-capacity", "%s ecs.%s has len %d cap %d: append on an event would write into the shared table", where, name, len(s), cap(s))
			}
		}
	}
	for k, n := range syscallNorms {
		check("syscallNorms["+k+"]", n)
	}
	for k, ns := range recordTypeNorms {
		for i, n := range ns {
			check(fmt.Sprintf("recordTypeNorms[%s][%d]", k, i), n)
		}
	}
	fmt.Printf("BOUNDED-CASES %d\n", cases)
}

func parseGroup(lines []string) []*auparse.AuditMessage {
	var msgs []*auparse.AuditMessage
	for _, l := range lines {
		l = strings.TrimSpace(l)
		if l == "" {
			continue
		}
		m, err := auparse.ParseLogLine(l)
		if err != nil {
			continue
		}
		msgs = append(msgs, m)
	}
	return msgs
}

type snapshot struct {
	Data map[string]string
	Tags []string
	Map  string
	Err  string
}

func snap(m *auparse.AuditMessage) snapshot {
	var s snapshot
	d, err := m.Data()
	if err != nil {
		s.Err = err.Error()
	}
	s.Data = map[string]string{}
	for k, v := range d {
		s.Data[k] = v
	}
	tags, _ := m.Tags()
	s.Tags = append([]string(nil), tags...)
	b, _ := json.Marshal(m.ToMapStr())
	s.Map = string(b)
	return s
}

// placed: is (k, v) of a record somewhere in the event?
func placed(ev *Event, recType auparse.AuditMessageType, k, v string, flat string) bool {
	if ev.Data[k] == v || ev.Data["socket_"+k] == v {
		return true
	}
	if ev.User.IDs[k] == v {
		return true
	}
	if strings.HasPrefix(k, "subj_") && ev.User.SELinux[k[5:]] == v {
		return true
	}
	if (k == "result" && ev.Result == v) || (k == "ses" && ev.Session == v) {
		return true
	}
	switch k {
	case "pid":
		return ev.Process.PID == v
	case "ppid":
		return ev.Process.PPID == v
	case "proctitle":
		return ev.Process.Title == v
	case "comm":
		return ev.Process.Name == v
	case "exe":
		return ev.Process.Exe == v
	case "cwd":
		return ev.Process.CWD == v
	}
	for _, a := range ev.Process.Args {
		if a == v {
			return true
		}
	}
	for _, p := range ev.Paths {
		if p[k] == v {
			return true
		}
	}
	if k == "items" && recType == auparse.AUDIT_SYSCALL {
		return true // dropped on purpose
	}
	// anything else: the value must at least appear in the JSON form of the event
	b, _ := json.Marshal(v)
	return strings.Contains(flat, string(b[1:len(b)-1]))
}

func TestBoundedCoalesceCorpus(t *testing.T) {
	reported := map[string]bool{}
	var groups [][]string
	files, _ := filepath.Glob("testdata/*.yaml")
	sort.Strings(files)
	for _, f := range files {
		data, err := os.ReadFile(f)
		if err != nil {
			continue
		}
		var doc struct {
			Tests map[string]string `yaml:"tests"`
		}
		if yaml.Unmarshal(data, &doc) != nil {
			continue
		}
		names := make([]string, 0, len(doc.Tests))
		for n := range doc.Tests {
			names = append(names, n)
		}
		sort.Strings(names)
		for _, n := range names {
			groups = append(groups, strings.Split(doc.Tests[n], "\n"))
		}
	}
	hdr := "msg=audit(1492800799.050:20294):"
	sys := "type=SYSCALL " + hdr + ` arch=c000003e syscall=2 success=yes exit=3 a0=7f a1=0 a2=1b6 a3=0 items=2 ppid=1 pid=42 auid=1000 uid=0 gid=0 euid=0 suid=0 fsuid=0 egid=0 sgid=0 fsgid=0 tty=pts0 ses=7 comm="cat" exe="/bin/cat" subj=unconfined_u:unconfined_r:unconfined_t:s0 key="k"`
	path := func(item int, mode string, nametype string) string {
		return fmt.Sprintf(`type=PATH %s item=%d name="/etc/passwd" inode=123 dev=08:01 mode=%s ouid=0 ogid=0 rdev=00:00 obj=system_u:object_r:etc_t:s0 nametype=%s`, hdr, item, mode, nametype)
	}
	// synthetic groups: unusual orders, collisions, sockaddr, execve
	groups = append(groups,
		[]string{sys, "type=CWD " + hdr + ` cwd="/root"`, path(0, "0100644", "NORMAL"), path(1, "040755", "PARENT"), "type=PROCTITLE " + hdr + " proctitle=636174002F6574632F706173737764"},
		[]string{path(0, "0100644", "NORMAL"), sys, "type=CWD " + hdr + ` cwd="/root"`},
		[]string{"type=CWD " + hdr + ` cwd="/root"`, sys, path(0, "040755", "PARENT"), path(1, "0100600", "CREATE")},
		[]string{sys, "type=AVC " + hdr + ` avc:  denied  { read } for  pid=42 comm="cat" name="shadow" dev="sda1" ino=5 scontext=a tcontext=b tclass=file`, "type=AVC " + hdr + ` avc:  denied  { write } for  pid=43 comm="dog" name="other"`},
		[]string{sys, "type=EXECVE " + hdr + ` argc=3 a0="ls" a1="-l" a2="/tmp"`, "type=CWD " + hdr + ` cwd="/"`},
		[]string{strings.Replace(sys, "syscall=2 ", "syscall=42 ", 1), "type=SOCKADDR " + hdr + " saddr=020000357F0000010000000000000000"},
		[]string{"type=USER_LOGIN " + hdr + ` pid=1 uid=0 auid=1000 ses=3 msg='op=login acct="root" exe="/usr/sbin/sshd" hostname=h addr=10.0.0.1 terminal=ssh res=success'`},
		[]string{"type=USER_CMD " + hdr + ` pid=1 uid=0 auid=1000 ses=3 msg='cwd="/root" cmd=6C73 terminal=pts/0 res=failed'`},
	)
	// all 65 536 st_mode values on the selected PATH record
	modeGroups := make([][]string, 0, 65536)
	for m := 0; m < 65536; m++ {
		modeGroups = append(modeGroups, []string{sys, path(0, "0"+strconv.FormatInt(int64(m), 8), "NORMAL")})
	}
	typeOf := map[int]string{0o10: "file", 0o04: "directory", 0o02: "character-device", 0o06: "block-device", 0o01: "named-pipe", 0o12: "symlink", 0o14: "socket"}

	cases := 0
	run := func(lines []string, modeCheck int) {
		msgs := parseGroup(lines)
		if len(msgs) == 0 {
			return
		}
		cases++
		before := make([]snapshot, len(msgs))
		for i, m := range msgs {
			before[i] = snap(m)
		}
		var ev1 *Event
		var err1 error
		func() {
			defer func() {
				if r := recover(); r != nil {
					bfail(reported, "panic", "CoalesceMessages panics on %q: %v", lines[0], r)
				}
			}()
			ev1, err1 = CoalesceMessages(msgs)
		}()
		for i, m := range msgs {
			if after := snap(m); !reflect.DeepEqual(before[i], after) {
				bfail(reported, "input-changed/"+m.RecordType.String(), "message %d (%s) reports differently after coalescing: before %v after %v", i, m.RecordType, before[i].Data, after.Data)
			}
		}
		ev2, err2 := CoalesceMessages(msgs)
		j1, _ := json.Marshal(ev1)
		j2, _ := json.Marshal(ev2)
		if string(j1) != string(j2) || (err1 == nil) != (err2 == nil) {
			// warnings may be ordered by map iteration: compare without them
			if ev1 != nil && ev2 != nil {
				w1, w2 := ev1.Warnings, ev2.Warnings
				ev1.Warnings, ev2.Warnings = nil, nil
				a, _ := json.Marshal(ev1)
				b, _ := json.Marshal(ev2)
				ev1.Warnings, ev2.Warnings = w1, w2
				if string(a) != string(b) || len(w1) != len(w2) {
					bfail(reported, "not-repeatable", "second CoalesceMessages of %q differs: %s vs %s", lines[0], a, b)
				}
			} else {
				bfail(reported, "not-repeatable", "second CoalesceMessages of %q differs in outcome", lines[0])
			}
		}
		if ev1 == nil || err1 != nil {
			return
		}
		if !ev1.Timestamp.Equal(msgs[0].Timestamp) || ev1.Sequence != msgs[0].Sequence || ev1.Type != msgs[0].RecordType {
			bfail(reported, "identity", "event identity differs from the first record for %q", lines[0])
		}
		if os.Getenv("VERIF_CLAUSES") == "c15" {
			return // only the input-intact / repeatable / no-panic clauses
		}
		if modeCheck < 0 {
			flat := string(j1)
			for i, m := range msgs {
				if m.RecordType == auparse.AUDIT_EOE {
					continue
				}
				for k, v := range before[i].Data {
					if len(ev1.Warnings) == 0 && !placed(ev1, m.RecordType, k, v, flat) {
						bfail(reported, "dropped/"+m.RecordType.String()+"/"+k, "%s=%q of the %s record is nowhere in the event and there is no warning (%q)", k, v, m.RecordType, lines[0])
					}
				}
			}
			return
		}
		// file summary against the PATH record
		if ev1.File == nil {
			bfail(reported, "file/missing", "no file summary for mode %o", modeCheck)
			return
		}
		if want := fmt.Sprintf("%04o", modeCheck&0o7777); ev1.File.Mode != want {
			bfail(reported, "file/mode-bits", "mode %o: File.Mode %q, want %q", modeCheck, ev1.File.Mode, want)
		}
		if ev1.File.Path != "/etc/passwd" || ev1.File.Inode != "123" || ev1.File.UID != "0" || ev1.File.GID != "0" {
			bfail(reported, "file/fields", "mode %o: file summary does not mirror the PATH record: %+v", modeCheck, ev1.File)
		}
		if want, ok := typeOf[modeCheck>>12]; ok && ev1.Summary.Object.Type != want {
			bfail(reported, "file/object-type/"+want, "st_mode %o is a %s but Summary.Object.Type is %q", modeCheck, want, ev1.Summary.Object.Type)
		}
	}
	for _, g := range groups {
		run(g, -1)
	}
	for m, g := range modeGroups {
		run(g, m)
	}
	fmt.Printf("BOUNDED-CASES %d\n", cases)
}
