package flags_test

// Bounded stand-in for the text layer of C07 (ToCommandLine -> flags.Parse ->
// Build), which mixes fmt/strconv/strings.Join formatting with the flag
// package and is out of reach of the contracts: a grammar of rules (every list
// x action, every field name with every operator it admits and boundary
// values, syscalls by number and by name, 0..3 keys, watches with every
// permission subset) is built, decoded to text, re-parsed, re-built and
// compared byte for byte; the text must also be a fixed point.
// Bound: the finite corpus generated below (about 9 000 rules), resolveIds=false.

import (
	"bytes"
	"fmt"
	"math/rand"
	"os"
	"sort"
	"strings"
	"testing"

	"github.com/elastic/go-libaudit/v2/rule"
	"github.com/elastic/go-libaudit/v2/rule/flags"
)

func TestBoundedRoundTripGrammar(t *testing.T) {
	reported := map[string]bool{}
	fail := func(class, format string, a ...interface{}) {
		if !reported[class] {
			reported[class] = true
			fmt.Printf("BOUNDED-FAIL %s %s\n", class, fmt.Sprintf(format, a...))
		}
	}
	ops := []string{"=", "!=", "<", ">", "<=", ">=", "&", "&="}
	numVals := []string{"0", "1", "2147483647", "2147483648", "4294967295", "0x10", "-1"}
	idVals := []string{"0", "1000", "2147483647", "2147483648", "4294967294", "4294967295", "unset"}
	type fieldCase struct {
		name string
		vals []string
		ops  []string
		list string
	}
	eqOps := []string{"=", "!="}
	fields := []fieldCase{
		{"pid", numVals, ops, "exit"}, {"ppid", numVals, ops, "exit"},
		{"uid", idVals, ops, "exit"}, {"euid", idVals, ops, "exit"}, {"suid", idVals, ops, "exit"}, {"fsuid", idVals, ops, "exit"}, {"auid", idVals, ops, "exit"}, {"obj_uid", idVals, ops, "exit"},
		{"gid", idVals[:6], ops, "exit"}, {"egid", idVals[:6], ops, "exit"}, {"sgid", idVals[:6], ops, "exit"}, {"fsgid", idVals[:6], ops, "exit"}, {"obj_gid", idVals[:6], ops, "exit"},
		{"a0", numVals, ops, "exit"}, {"a1", numVals, ops, "exit"}, {"a2", numVals, ops, "exit"}, {"a3", numVals, ops, "exit"},
		{"exit", []string{"0", "-1", "-13", "2", "-EPERM", "-ENOENT", "EACCES", "-2147483648", "2147483647"}, ops, "exit"},
		{"success", []string{"0", "1"}, eqOps, "exit"},
		{"devmajor", numVals[:5], ops, "exit"}, {"devminor", numVals[:5], ops, "exit"},
		{"inode", numVals[:5], eqOps, "exit"},
		{"pers", numVals[:5], ops, "exit"}, {"sessionid", numVals, ops, "exit"},
		{"saddr_fam", []string{"2", "10"}, ops, "exit"},
		{"perm", []string{"r", "w", "x", "a", "rw", "rwxa", "wa", "xr"}, []string{"="}, "exit"},
		{"filetype", []string{"file", "dir", "socket", "symlink", "char", "block", "fifo"}, eqOps, "exit"},
		{"arch", []string{"b64", "b32", "aarch64", "arm", "armeb", "c6x", "c6xbe", "cris", "frv", "h8300", "i386", "ia64", "loongarch32", "loongarch64", "m32r", "m68k", "mips", "mips64", "mips64n32", "mipsel", "mipsel64", "mipsel64n32", "nios2", "parisc", "parisc64", "ppc", "ppc64", "ppc64le", "s390", "s390x", "sh", "sh64", "shel", "shel64", "sparc", "sparc64", "x86_64"}, eqOps, "exit"}, // every name of auparse.AuditArchNames (foreign 32-bit arches must not be listed as b32)
		{"msgtype", []string{"1100", "USER_LOGIN", "1305", "SYSCALL", "65535", "70000"}, ops, "user"},
		{"msgtype", []string{"1100", "EXECVE"}, ops, "exclude"},
		{"path", []string{"/etc/passwd", "/", "/a=b", "/x&y"}, eqOps, "exit"},
		{"dir", []string{"/nonexistent-dir-for-verif", "/var/x"}, eqOps, "exit"},
		{"exe", []string{"/bin/ls", "/usr/bin/a-b_c.d"}, eqOps, "exit"},
		{"key", []string{"k", "some-key", "a,b"}, []string{"="}, "exit"},
		{"subj_user", []string{"system_u"}, eqOps, "exit"}, {"subj_role", []string{"r"}, eqOps, "exit"}, {"subj_type", []string{"t"}, eqOps, "exit"},
		{"subj_sen", []string{"s0"}, eqOps, "exit"}, {"subj_clr", []string{"s0:c0.c1023"}, eqOps, "exit"},
		{"obj_user", []string{"u"}, eqOps, "exit"}, {"obj_role", []string{"r"}, eqOps, "exit"}, {"obj_type", []string{"t"}, eqOps, "exit"},
		{"obj_lev_low", []string{"s0"}, eqOps, "exit"}, {"obj_lev_high", []string{"s15"}, eqOps, "exit"},
	}
	var lines []string
	// every list x action with a simple filter
	for _, list := range []string{"exit", "task", "user", "exclude"} {
		for _, action := range []string{"always", "never"} {
			for _, order := range []string{"%s,%s", "%[2]s,%[1]s"} {
				lines = append(lines, fmt.Sprintf("-a "+order+" -F pid=1", list, action))
			}
		}
	}
	// every field x operator x value
	for _, fc := range fields {
		for _, op := range fc.ops {
			for _, v := range fc.vals {
				lines = append(lines, fmt.Sprintf("-a always,%s -F %s%s%s", fc.list, fc.name, op, v))
				lines = append(lines, fmt.Sprintf("-a never,%s -S open -S 59 -F %s%s%s -k k1", fc.list, fc.name, op, v))
			}
		}
	}
	// syscalls: numbers across the mask, names, all, several
	for _, sc := range []string{"0", "1", "31", "32", "63", "64", "1000", "2047", "open", "execve", "connect", "all", "read,write", "open,59,2000"} {
		lines = append(lines, "-a always,exit -S "+sc)
		lines = append(lines, "-a always,exit -F arch=b64 -S "+sc+" -F auid>=1000 -F auid!=4294967295 -k access")
		lines = append(lines, "-a always,exit -F arch=b32 -S "+sc)
	}
	// inter-field comparisons
	for _, pair := range [][2]string{{"uid", "euid"}, {"auid", "obj_uid"}, {"gid", "egid"}, {"sgid", "egid"}, {"egid", "sgid"}, {"fsuid", "suid"}, {"uid", "obj_uid"}, {"fsgid", "obj_gid"}} {
		for _, op := range eqOps {
			lines = append(lines, fmt.Sprintf("-a always,exit -S open -C %s%s%s", pair[0], op, pair[1]))
			lines = append(lines, fmt.Sprintf("-a always,exit -C %s%s%s -F pid=1 -C uid!=euid -k c", pair[0], op, pair[1]))
		}
	}
	// keys
	for _, keys := range []string{"", "-k a", "-k a -k b", "-k a -k b -k c", "-k a,b"} {
		lines = append(lines, "-a always,exit -S open -F success=0 "+keys)
		lines = append(lines, "-w /etc/passwd -p wa "+keys)
	}
	// watches with every permission subset
	for mask := 0; mask < 16; mask++ {
		p := ""
		for i, c := range "rwxa" {
			if mask&(1<<i) != 0 {
				p += string(c)
			}
		}
		for _, path := range []string{"/etc/passwd", "/nonexistent-file-for-verif", "/tmp"} {
			l := "-w " + path
			if p != "" {
				l += " -p " + p
			}
			lines = append(lines, l, l+" -k watch")
		}
	}
	// many fields
	for _, n := range []int{2, 10, 32, 63, 64} {
		var b strings.Builder
		b.WriteString("-a always,exit")
		for i := 0; i < n; i++ {
			fmt.Fprintf(&b, " -F a%d=%d", i%4, i)
		}
		lines = append(lines, b.String())
	}
	lines = append(lines, "-D", "-D -k x")
	// several string-valued fields in one rule (the decoder slices them out of one buffer)
	strF := []string{"subj_user=system_u", "exe!=/usr/bin/sudo", "path=/etc/passwd", "obj_type=etc_t", "subj_role=r", "dir=/tmp", "obj_lev_low=s0", "subj_clr=s0:c0.c1023"}
	for n := 2; n <= len(strF); n++ {
		for start := 0; start < len(strF); start++ {
			l := "-a always,exit -S open"
			for k := 0; k < n; k++ {
				l += " -F " + strF[(start+k)%len(strF)]
			}
			lines = append(lines, l, l+" -k demo", l+" -k a -k bb -k ccc")
		}
	}
	if os.Getenv("VERIF_TIER") == "thorough" {
		// thorough tier: every pair of (field, operator, value) cases in one rule, sampled by VERIF_SEED
		seed := 1
		fmt.Sscanf(os.Getenv("VERIF_SEED"), "%d", &seed)
		rng := rand.New(rand.NewSource(int64(seed)))
		type fov struct{ f, o, v, list string }
		var all []fov
		for _, fc := range fields {
			for _, op := range fc.ops {
				for _, v := range fc.vals {
					all = append(all, fov{fc.name, op, v, fc.list})
				}
			}
		}
		for i := 0; i < 20000; i++ {
			a, b, c := all[rng.Intn(len(all))], all[rng.Intn(len(all))], all[rng.Intn(len(all))]
			if a.list != b.list || a.list != c.list {
				continue
			}
			lines = append(lines, fmt.Sprintf("-a always,%s -S %d -F %s%s%s -F %s%s%s -F %s%s%s -k t%d", a.list, rng.Intn(2048), a.f, a.o, a.v, b.f, b.o, b.v, c.f, c.o, c.v, i%7))
		}
	}
	// watch-shaped syscall rules: every list x action, with and without a path, in several field orders
	for _, list := range []string{"exit", "task", "user", "exclude"} {
		for _, action := range []string{"always", "never"} {
			la := "-a " + action + "," + list
			lines = append(lines,
				la+" -F path=/etc/passwd -F perm=r",
				la+" -F perm=wa -F path=/etc/passwd",
				la+" -F dir=/tmp -F perm=rwxa -k w",
				la+" -F perm=x",
				la+" -F perm=x -k w",
				la+" -F path=/etc/passwd -F perm=r -F auid>=1000",
				la+" -k first -F path=/etc/passwd -F perm=r",
				la+" -F pid=1 -F arch=b64 -S open",
				la+" -S open -F pid=1 -F arch=b64",
				la+" -F arch=b64 -F pid=1 -S open -k a -k b",
			)
		}
	}

	cases := 0
	for _, line := range lines {
		r1, err := flags.Parse(line)
		if err != nil {
			continue // not a rule of the domain (rejected by the parser)
		}
		if r1.TypeOf() == rule.DeleteAllRuleType {
			continue
		}
		wf1, err := rule.Build(r1)
		if err != nil {
			continue // rejected by Build: outside "every rule that Build accepts"
		}
		cases++
		text, err := rule.ToCommandLine(wf1, false)
		if err != nil {
			fail("decode", "ToCommandLine fails on a built rule %q: %v", line, err)
			continue
		}
		r2, err := flags.Parse(text)
		if err != nil {
			fail("reparse/"+classOf(line), "text %q (from %q) is rejected by flags.Parse: %v", text, line, err)
			continue
		}
		wf2, err := rule.Build(r2)
		if err != nil {
			fail("rebuild/"+classOf(line), "text %q (from %q) is rejected by Build: %v", text, line, err)
			continue
		}
		if !bytes.Equal(wf1, wf2) {
			if sameUpToOrder(wf1, wf2) {
				// same list, action, mask and the same set of triples: only their order differs
				kind := "fields"
				if strings.HasPrefix(text, "-w ") {
					kind = "watch-form"
				} else if strings.Contains(line, "arch") {
					kind = "arch-first"
				}
				fail("order/"+kind, "%q -> %q re-encodes to the same triples in another order", line, text)
				continue
			}
			if strings.Count(line, "-F arch") >= 2 {
				fail("bytes/duplicate-arch", "%q -> %q: a rule with two arch filters is listed with one", line, text)
				continue
			}
			fail("bytes/"+classOf(line), "%q -> %q re-encodes differently (first difference at byte %d)", line, text, firstDiff(wf1, wf2))
			continue
		}
		text2, err := rule.ToCommandLine(wf2, false)
		if err != nil || text2 != text {
			fail("fixpoint/"+classOf(line), "%q: second decode %q differs from first %q (%v)", line, text2, text, err)
		}
	}
	fmt.Printf("BOUNDED-CASES %d\n", cases)
}

// classOf names the construct a line exercises (field of the first -F/-C, or
// syscall / watch), so that one report per construct is produced.
func classOf(line string) string {
	toks := strings.Fields(line)
	for i, tk := range toks {
		if (tk == "-F" || tk == "-C") && i+1 < len(toks) {
			arg := toks[i+1]
			j := strings.IndexAny(arg, "=!<>&")
			if j > 0 {
				name := arg[:j]
				if name == "pid" && i+2 < len(toks) {
					continue
				}
				return name
			}
		}
		if tk == "-w" {
			return "watch"
		}
	}
	for i, tk := range toks {
		if tk == "-S" && i+1 < len(toks) {
			return "syscall"
		}
	}
	return "rule"
}

// sameUpToOrder decodes both wire forms with an independent reading of the UAPI
// layout and compares list, action, mask and the multiset of triples.
func sameUpToOrder(a, b []byte) bool {
	type triple struct {
		field, op, value uint32
		str              string
	}
	le := func(w []byte, off int) uint32 {
		return uint32(w[off]) | uint32(w[off+1])<<8 | uint32(w[off+2])<<16 | uint32(w[off+3])<<24
	}
	isStr := func(f uint32) bool {
		switch f {
		case 13, 14, 15, 16, 17, 19, 20, 21, 22, 23, 105, 107, 210, 112:
			return true
		}
		return false
	}
	dec := func(w []byte) (hdr string, ts []string, ok bool) {
		if len(w) < 1040 {
			return "", nil, false
		}
		hdr = string(w[0:8]) + string(w[12:268])
		n := int(le(w, 8))
		if n > 64 {
			return "", nil, false
		}
		pos := 1040
		for i := 0; i < n; i++ {
			t := triple{field: le(w, 268+4*i), value: le(w, 524+4*i), op: le(w, 780+4*i)}
			if isStr(t.field) {
				end := pos + int(t.value)
				if end > len(w) {
					return "", nil, false
				}
				t.str = string(w[pos:end])
				pos = end
			}
			ts = append(ts, fmt.Sprintf("%d|%d|%d|%s", t.field, t.op, t.value, t.str))
		}
		sort.Strings(ts)
		return hdr, ts, true
	}
	ha, ta, oka := dec(a)
	hb, tb, okb := dec(b)
	return oka && okb && ha == hb && strings.Join(ta, "\x00") == strings.Join(tb, "\x00")
}

func minInt(a, b int) int {
	if a < b {
		return a
	}
	return b
}

func firstDiff(a, b []byte) int {
	for i := 0; i < len(a) && i < len(b); i++ {
		if a[i] != b[i] {
			return i
		}
	}
	return minInt(len(a), len(b))
}
