package rule

// Bounded stand-in for the one part of C06 the contracts do not reach: the
// relation between FileWatchRule.Permissions and the AUDIT_PERM value on the
// wire (addFileWatch joins letters into a string; the string-to-value step,
// getPerm, is under contract). Every sequence of access types up to length 5
// (1 365 sequences, duplicates and all orders included) is built and the wire
// value compared with the OR of the UAPI bits; an empty list means all four.

import (
	"encoding/binary"
	"fmt"
	"testing"
)

func TestBoundedFileWatchPerms(t *testing.T) {
	// include/uapi/linux/audit.h
	const (
		auditPermExec  = 1
		auditPermWrite = 2
		auditPermRead  = 4
		auditPermAttr  = 8
		auditPerm      = 106
		auditDir       = 107
		auditWatch     = 105
		auditFilterKey = 210
		auditEqual     = 0x40000000
	)
	bits := map[AccessType]uint32{ReadAccessType: auditPermRead, WriteAccessType: auditPermWrite, ExecuteAccessType: auditPermExec, AttributeChangeAccessType: auditPermAttr}
	types := []AccessType{ReadAccessType, WriteAccessType, ExecuteAccessType, AttributeChangeAccessType}
	cases := 0
	failed := map[string]bool{}
	fail := func(class, detail string) {
		if !failed[class] {
			fmt.Printf("BOUNDED-FAIL %s %s\n", class, detail)
		}
		failed[class] = true
	}
	var rec func(seq []AccessType, depth int)
	check := func(seq []AccessType) {
		cases++
		want := uint32(0)
		for _, a := range seq {
			want |= bits[a]
		}
		if len(seq) == 0 {
			want = auditPermRead | auditPermWrite | auditPermExec | auditPermAttr
		}
		for _, keys := range [][]string{nil, {"k"}} {
			r := &FileWatchRule{Type: FileWatchRuleType, Path: "/nonexistent-verif/file", Permissions: append([]AccessType(nil), seq...), Keys: keys}
			var wire WireFormat
			var err error
			func() {
				defer func() {
					if p := recover(); p != nil {
						err = fmt.Errorf("panic: %v", p)
					}
				}()
				wire, err = Build(r)
			}()
			if err != nil {
				fail("build", fmt.Sprintf("permissions %v: %v", seq, err))
				continue
			}
			if len(wire) < 1040 {
				fail("layout", fmt.Sprintf("permissions %v: %d bytes", seq, len(wire)))
				continue
			}
			le := binary.LittleEndian.Uint32
			nf := le(wire[8:])
			wantFields := uint32(2 + len(keys))
			if nf != wantFields {
				fail("field-count", fmt.Sprintf("permissions %v keys %v: %d fields, want %d", seq, keys, nf, wantFields))
				continue
			}
			f0, f1 := le(wire[268:]), le(wire[272:])
			v1 := le(wire[528:])
			op1 := le(wire[784:])
			if f0 != auditWatch || f1 != auditPerm || op1 != auditEqual {
				fail("perm-field", fmt.Sprintf("permissions %v: fields %d,%d operator %#x", seq, f0, f1, op1))
			}
			if v1 != want {
				fail("perm-value", fmt.Sprintf("permissions %v: AUDIT_PERM value %#x, want %#x", seq, v1, want))
			}
			if len(keys) > 0 && le(wire[276:]) != auditFilterKey {
				fail("key-field", fmt.Sprintf("permissions %v: third field %d", seq, le(wire[276:])))
			}
		}
	}
	rec = func(seq []AccessType, depth int) {
		check(seq)
		if depth == 5 {
			return
		}
		for _, a := range types {
			rec(append(seq, a), depth+1)
		}
	}
	rec(nil, 0)
	fmt.Printf("BOUNDED-CASES %d\n", cases)
}
