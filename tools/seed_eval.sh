#!/bin/bash
# seed_eval.sh <seed-id> [property] [suffix]  : (suffix names a later round: seeded/<id><suffix>) confirm a seeded change from /tmp/seed/<id>/out in a scratch worktree,
# store it under /verif/seeded/<id>/, then run the property's quick check against a scratch worktree with the change applied.
id=$1; prop=${2:-${id%%-*}}; suffix=${3:-}
export GOFLAGS=-mod=mod GOPROXY=off GOSUMDB=off GOTOOLCHAIN=local
src=/tmp/seed/$id/out; dst=/verif/seeded/$id$suffix
[ -f $src/patch.diff ] || { echo "no patch in $src"; exit 2; }
mkdir -p $dst; cp $src/patch.diff $src/zz_seed_demo_test.go $src/meta.json $src/demo_pkg.txt $dst/ 2>/dev/null
pkg=$(cat $dst/demo_pkg.txt 2>/dev/null | tr -d '\n '); pkg=${pkg:-.}
s=$(mktemp -d); git -C /repo worktree add --detach -q $s/r HEAD
cp $dst/zz_seed_demo_test.go $s/r/$pkg/
orig=$(cd $s/r/$pkg && go test -vet=off -count=1 -timeout 120s -run '^TestSeedDemo$' . 2>&1 | tail -1)
if ! git -C $s/r apply $dst/patch.diff; then echo "PATCH DOES NOT APPLY"; git -C /repo worktree remove --force $s/r; rm -rf $s; exit 2; fi
changed=$(cd $s/r/$pkg && go test -vet=off -count=1 -timeout 120s -run '^TestSeedDemo$' . 2>&1 | tail -1)
rm $s/r/$pkg/zz_seed_demo_test.go
suite=$(cd $s/r && go test -vet=off -count=1 ./... 2>&1 | grep -v '^ok\|no test files' | head -5)
git -C /repo worktree remove --force $s/r; rm -rf $s
echo "demo on original: $orig"; echo "demo on change:   $changed"; echo "suite failures: ${suite:-none}"
# run the check against a scratch worktree with the change applied (never touches /repo; evidence and replays go to a scratch verif dir)
s=$(mktemp -d); v=$(mktemp -d); git -C /repo worktree add --detach -q $s/r HEAD
git -C $s/r apply $dst/patch.diff || { echo "cannot apply"; git -C /repo worktree remove --force $s/r; rm -rf $s $v; exit 2; }
for f in props.json known_findings.json contracts-lib lemmas bounded oracles hints; do [ -e /verif/$f ] && ln -s /verif/$f $v/$f; done
out=$(cd /verif && ./bin/govc check -repo $s/r -verif $v -prop $prop -tier quick 2>&1 | grep -v '^ok' | tail -6)
git -C /repo worktree remove --force $s/r; rm -rf $s $v
echo "$out"
python3 - "$dst" "$prop" "$orig" "$changed" "${suite:-none}" <<PY
import json,sys
dst,prop,orig,changed,suite=sys.argv[1:6]
out='''$out'''
m=json.load(open(dst+'/meta.json'))
m['confirmed']={'demo_on_original':orig,'demo_on_change':changed,'suite_failures':suite}
viol=[l for l in out.split('\n') if l.startswith('VIOLATION')]
m['check']={'property':prop,'detected':bool(viol),'violations':[v.split('obligation=')[-1] for v in viol][:6]}
json.dump(m,open(dst+'/meta.json','w'),indent=1)
print('DETECTED' if viol else 'MISSED')
PY
