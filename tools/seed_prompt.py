#!/usr/bin/env python3
# seed_prompt.py <Cnn>...: writes /tmp/seed/<Cnn>/property.json and prompt.txt for a fresh sub-agent (the agent gets only the property
# text, its own scratch worktree and one-line summaries of earlier seeds for the same property, so that it picks another mechanism).
import json,glob,sys
tmpl='''You are helping test a verification setup by producing ONE realistic, subtle, property-breaking code change ("seeded defect") for the Go library elastic/go-libaudit.

Your private scratch copy of the repository is the git worktree at /tmp/seed/{P}/repo (module github.com/elastic/go-libaudit/v2). Work ONLY inside /tmp/seed/{P}/ . Do NOT read, list or touch /verif or /repo or any other /tmp/seed/<other> directory. There is no network: before every go command run: export GOFLAGS=-mod=mod GOPROXY=off GOSUMDB=off GOTOOLCHAIN=local

The semantic property to break is described in /tmp/seed/{P}/property.json (read it: statement, quantifier, anchors give the files and mechanisms it depends on).

Earlier changes already produced for this property (yours must use a DIFFERENT function and a DIFFERENT mechanism than all of these):
{EARLIER}

Task:
1. Read the anchored code in the worktree and understand how the property is currently upheld.
2. Make a small source change (a few lines, in non-test .go files of the library) that a plausible developer mistake or "optimisation" could introduce, such that:
   - the code still compiles (go build ./... and: go test -vet=off -count=1 -run '^$' ./...),
   - the ENTIRE existing test suite still passes unchanged: run `go test -vet=off -count=1 ./...` in the worktree and confirm every package is ok (do not edit or delete any existing test),
   - the property in property.json is genuinely violated for some inputs/histories, but only under a specific condition (a particular interleaving, a fault at a particular point, a multi-step sequence of operations, an unusual input or boundary value, or two cooperating sites that each look fine alone) - not on every call. Avoid changes that break the property trivially everywhere or that ordinary use would expose at once. Prefer a change that keeps the overall shape of the code (same functions, same loops), e.g. a wrong constant, comparison, index, offset, order of two statements, a dropped or misplaced statement, or a condition that is slightly too wide or too narrow.
3. Write a demonstration that shows the violation against the changed code: a NEW Go test file placed in the relevant package directory of the worktree, named zz_seed_demo_test.go, with a test named TestSeedDemo that FAILS (t.Fatalf with a clear message) on the changed code and PASSES on the original code. Verify both: run it on your change (must fail), then `git stash` the source change (keep the demo file untracked), run it on the original (must pass), then `git stash pop`.
4. Deliver in /tmp/seed/{P}/out/ :
   - patch.diff : output of `git -C /tmp/seed/{P}/repo diff -- . ':(exclude)*contracts_verif.go' ':(exclude)*zz_seed_demo_test.go'` (the source change only; note some files named *contracts_verif.go were deliberately deleted from the worktree - ignore that, never include those deletions),
   - zz_seed_demo_test.go : a copy of the demo test, plus demo_pkg.txt containing the package directory relative to the repo root where it must be placed (e.g. "." or "auparse"),
   - meta.json : {{"property":"{P}","summary":"<one sentence: what was changed>","trigger":"<the specific condition needed to manifest>","files":["..."],"tests_pass":true,"demo_fails_on_change":true,"demo_passes_on_original":true}}
Leave the worktree with your change applied. Report back briefly: what you changed, the trigger, and confirmation of the three verification runs.'''
for P in sys.argv[1:]:
    for l in open('/verif/properties.jsonl'):
        p=json.loads(l)
        if p['id']==P: json.dump(p,open('/tmp/seed/%s/property.json'%P,'w'),indent=1)
    e=[' - '+json.load(open(d+'/meta.json'))['summary'] for d in sorted(glob.glob('/verif/seeded/%s'%P)+glob.glob('/verif/seeded/%s-r*'%P))]
    open('/tmp/seed/%s/prompt.txt'%P,'w').write(tmpl.format(P=P,EARLIER='\n'.join(e)))
