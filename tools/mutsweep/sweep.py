#!/usr/bin/env python3
"""Mutation sweep: small syntactic mutants of the functions under contract; those that still compile
and pass the repository's tests are run against the quick check of every property that has a unit
for the mutated function. Output: one JSON line per mutant in <out>, summary on stdout.
usage: sweep.py <out.jsonl> [max-per-function] [property filter regex] [jobs]"""
import json, os, random, re, subprocess, sys, tempfile, shutil, fcntl
from concurrent.futures import ThreadPoolExecutor
ENV = dict(os.environ, GOFLAGS='-mod=mod', GOPROXY='off', GOSUMDB='off', GOTOOLCHAIN='local')
out_path = sys.argv[1]
per_fn = int(sys.argv[2]) if len(sys.argv) > 2 else 4
pfilter = re.compile(sys.argv[3]) if len(sys.argv) > 3 else re.compile('.')
jobs = int(sys.argv[4]) if len(sys.argv) > 4 else 4
props = json.load(open('/verif/props.json'))
fn_props = {}
for pid, d in props.items():
    if not pfilter.search(pid):
        continue
    for u in d.get('units', []):
        fn_props.setdefault(u['fn'], set()).add(pid)
files = []
for root, dirs, fs in os.walk('/repo'):
    dirs[:] = [d for d in dirs if d not in ('.git', 'cmd', 'testdata', 'sys')]
    for f in fs:
        if f.endswith('.go') and not f.endswith('_test.go') and not f.endswith('contracts_verif.go') and not f.startswith('mk_') and not f.startswith('defs_'):
            files.append(os.path.relpath(os.path.join(root, f), '/repo'))
args = ['/verif/bin/mutgen', '/repo'] + [f + ':' for f in files]
muts = [json.loads(l) for l in subprocess.run(args, capture_output=True, text=True).stdout.splitlines()]
muts = [m for m in muts if m['func'] in fn_props]
rnd = random.Random(int(os.environ.get('MUT_SEED', '1')))
byfn = {}
for m in muts:
    byfn.setdefault(m['func'], []).append(m)
chosen = []
for fn, ms in sorted(byfn.items()):
    rnd.shuffle(ms)
    chosen += ms[:per_fn]
done = set()
if os.path.exists(out_path):
    for l in open(out_path):
        try:
            r = json.loads(l); done.add((r['file'], r['start'], r['end'], r['repl']))
        except Exception:
            pass
chosen = [m for m in chosen if (m['file'], m['start'], m['end'], m['repl']) not in done]
print('functions under contract with mutants: %d, mutants generated: %d, chosen: %d' % (len(byfn), len(muts), len(chosen)), flush=True)
lock = open('/tmp/mutsweep.rootlock', 'w')
outf = open(out_path, 'a')

def mutated_source(m):
    src = open('/repo/' + m['file'], 'rb').read()
    return src[:m['start']] + m['repl'].encode() + src[m['end']:]

def tests_pass(m, tmp):
    mf = os.path.join(tmp, 'mut.go')
    open(mf, 'wb').write(mutated_source(m))
    ov = os.path.join(tmp, 'ov.json')
    json.dump({'Replace': {'/repo/' + m['file']: mf}}, open(ov, 'w'))
    r = subprocess.run(['go', 'build', '-overlay', ov, './...'], cwd='/repo', env=ENV, capture_output=True, text=True)
    if r.returncode != 0:
        return 'no-compile'
    try:
        r = subprocess.run(['go', 'test', '-overlay', ov, '-vet=off', '-count=1', '-timeout', '120s', './aucoalesce', './auparse', './internal', './rule/...'], cwd='/repo', env=ENV, capture_output=True, text=True, timeout=200)
        if r.returncode != 0:
            return 'killed-by-tests'
        if os.path.dirname(m['file']) == '':
            fcntl.flock(lock, fcntl.LOCK_EX)
            try:
                for attempt in range(2):
                    r = subprocess.run(['go', 'test', '-overlay', ov, '-vet=off', '-count=1', '-timeout', '120s', '.'], cwd='/repo', env=ENV, capture_output=True, text=True, timeout=200)
                    if r.returncode == 0 or 'file exists' not in r.stdout:
                        break
            finally:
                fcntl.flock(lock, fcntl.LOCK_UN)
            if r.returncode != 0:
                return 'killed-by-tests'
    except subprocess.TimeoutExpired:
        return 'killed-by-tests'
    return 'survives-tests'

def run_checks(m, tmp):
    wt = os.path.join(tmp, 'repo')
    subprocess.run(['git', '-C', '/repo', 'worktree', 'add', '--detach', '-q', wt, 'HEAD'], check=True)
    try:
        open(os.path.join(wt, m['file']), 'wb').write(mutated_source(m))
        res = {}
        for pid in sorted(fn_props[m['func']]):
            v = os.path.join(tmp, 'v_' + pid)
            os.mkdir(v)
            for f in ('props.json', 'known_findings.json', 'contracts-lib', 'lemmas', 'bounded', 'oracles', 'hints'):
                if os.path.exists('/verif/' + f):
                    os.symlink('/verif/' + f, os.path.join(v, f))
            r = subprocess.run(['/verif/bin/govc', 'check', '-repo', wt, '-verif', v, '-prop', pid, '-tier', 'quick'], cwd='/verif', env=ENV, capture_output=True, text=True)
            viol = [l.split('obligation=')[-1] for l in r.stdout.splitlines() if l.startswith('VIOLATION')]
            res[pid] = {'exit': r.returncode, 'violations': viol[:4]}
            if r.returncode not in (0, 1):
                res[pid]['tail'] = (r.stdout + r.stderr)[-400:]
        return res
    finally:
        subprocess.run(['git', '-C', '/repo', 'worktree', 'remove', '--force', wt])

def one(m):
    tmp = tempfile.mkdtemp(prefix='mutsweep-')
    try:
        st = tests_pass(m, tmp)
        rec = dict(m, tests=st)
        if st == 'survives-tests':
            rec['checks'] = run_checks(m, tmp)
            rec['caught'] = any(c['exit'] == 1 and c['violations'] for c in rec['checks'].values())
        outf.write(json.dumps(rec) + '\n'); outf.flush()
        tag = st if st != 'survives-tests' else ('CAUGHT' if rec['caught'] else 'MISSED')
        print('%-8s %-16s %s:%d %s [%s -> %s]' % (m['id'], tag, m['func'], m['line'], m['kind'], m['orig'][:30].replace('\n', ' '), m['repl'][:30]), flush=True)
    except Exception as e:
        print('ERROR', m['id'], e, flush=True)
    finally:
        shutil.rmtree(tmp, ignore_errors=True)

with ThreadPoolExecutor(jobs) as ex:
    list(ex.map(one, chosen))
rs = [json.loads(l) for l in open(out_path)]
surv = [r for r in rs if r['tests'] == 'survives-tests']
print('total %d, no-compile %d, killed by tests %d, survive tests %d: caught by checks %d, missed %d' % (
    len(rs), sum(r['tests'] == 'no-compile' for r in rs), sum(r['tests'] == 'killed-by-tests' for r in rs), len(surv),
    sum(bool(r.get('caught')) for r in surv), sum(not r.get('caught') for r in surv)))
