module mutsweep

go 1.21
