// mutgen: enumerate small syntactic mutants of the functions named on the command line.
// Usage: mutgen <repo> <relative file>:<func key suffix> ...   (func "" = every function in the file)
// Output: one JSON object per line {id,file,func,line,kind,start,end,repl,orig}.
package main

import (
	"encoding/json"
	"fmt"
	"go/ast"
	"go/parser"
	"go/token"
	"os"
	"path/filepath"
	"strconv"
	"strings"
)

type Mut struct {
	ID    string `json:"id"`
	File  string `json:"file"`
	Func  string `json:"func"`
	Line  int    `json:"line"`
	Kind  string `json:"kind"`
	Start int    `json:"start"`
	End   int    `json:"end"`
	Repl  string `json:"repl"`
	Orig  string `json:"orig"`
}

func fnKey(dir string, pkgName string, d *ast.FuncDecl) string {
	pk := dir
	if dir == "." || dir == "" {
		pk = pkgName
	}
	if d.Recv == nil || len(d.Recv.List) == 0 {
		return pk + "." + d.Name.Name
	}
	t := d.Recv.List[0].Type
	ptr := false
	if s, ok := t.(*ast.StarExpr); ok {
		ptr = true
		t = s.X
	}
	name := ""
	if id, ok := t.(*ast.Ident); ok {
		name = id.Name
	}
	if ptr {
		return "(*" + pk + "." + name + ")." + d.Name.Name
	}
	return "(" + pk + "." + name + ")." + d.Name.Name
}

func main() {
	repo := os.Args[1]
	want := map[string]map[string]bool{} // file -> keys
	for _, a := range os.Args[2:] {
		i := strings.Index(a, ":")
		f, k := a[:i], a[i+1:]
		if want[f] == nil {
			want[f] = map[string]bool{}
		}
		want[f][k] = true
	}
	enc := json.NewEncoder(os.Stdout)
	n := 0
	for file, keys := range want {
		fset := token.NewFileSet()
		path := filepath.Join(repo, file)
		src, err := os.ReadFile(path)
		if err != nil {
			fmt.Fprintln(os.Stderr, err)
			continue
		}
		af, err := parser.ParseFile(fset, path, src, 0)
		if err != nil {
			fmt.Fprintln(os.Stderr, err)
			continue
		}
		dir := filepath.Dir(file)
		for _, decl := range af.Decls {
			fd, ok := decl.(*ast.FuncDecl)
			if !ok || fd.Body == nil {
				continue
			}
			key := fnKey(dir, af.Name.Name, fd)
			if !keys[""] && !keys[key] {
				continue
			}
			off := func(p token.Pos) int { return fset.Position(p).Offset }
			emit := func(kind string, s, e token.Pos, repl string) {
				n++
				enc.Encode(Mut{ID: fmt.Sprintf("m%04d", n), File: file, Func: key, Line: fset.Position(s).Line, Kind: kind, Start: off(s), End: off(e), Repl: repl, Orig: string(src[off(s):off(e)])})
			}
			ast.Inspect(fd.Body, func(nd ast.Node) bool {
				switch x := nd.(type) {
				case *ast.BinaryExpr:
					var alts []string
					switch x.Op {
					case token.LSS:
						alts = []string{"<="}
					case token.LEQ:
						alts = []string{"<"}
					case token.GTR:
						alts = []string{">="}
					case token.GEQ:
						alts = []string{">"}
					case token.EQL:
						alts = []string{"!="}
					case token.NEQ:
						alts = []string{"=="}
					case token.LAND:
						alts = []string{"||"}
					case token.LOR:
						alts = []string{"&&"}
					case token.ADD:
						if _, isStr := x.Y.(*ast.BasicLit); !isStr || x.Y.(*ast.BasicLit).Kind != token.STRING {
							alts = []string{"-"}
						}
					case token.SUB:
						alts = []string{"+"}
					case token.AND:
						alts = []string{"|"}
					case token.OR:
						alts = []string{"&"}
					case token.SHL:
						alts = []string{">>"}
					case token.SHR:
						alts = []string{"<<"}
					}
					for _, a := range alts {
						emit("binop "+x.Op.String()+"->"+a, x.OpPos, x.OpPos+token.Pos(len(x.Op.String())), a)
					}
				case *ast.BasicLit:
					if x.Kind == token.INT {
						if v, err := strconv.ParseInt(x.Value, 0, 64); err == nil && v < 1<<31 {
							emit("int+1", x.Pos(), x.End(), strconv.FormatInt(v+1, 10))
							if v > 0 {
								emit("int-1", x.Pos(), x.End(), strconv.FormatInt(v-1, 10))
							}
						}
					}
				case *ast.IfStmt:
					emit("negate-if", x.Cond.Pos(), x.Cond.End(), "!("+string(src[off(x.Cond.Pos()):off(x.Cond.End())])+")")
				case *ast.AssignStmt:
					if x.Tok == token.ASSIGN && len(x.Lhs) == 1 {
						emit("drop-assign", x.Pos(), x.End(), "_ = 0")
					}
					if x.Tok == token.OR_ASSIGN {
						emit("|=->=", x.TokPos, x.TokPos+2, "=")
					}
					if x.Tok == token.ADD_ASSIGN {
						emit("+=->=", x.TokPos, x.TokPos+2, "=")
					}
				case *ast.ExprStmt:
					if _, ok := x.X.(*ast.CallExpr); ok {
						emit("drop-call", x.Pos(), x.End(), "_ = 0")
					}
				case *ast.IncDecStmt:
					emit("drop-incdec", x.Pos(), x.End(), "_ = 0")
				case *ast.BranchStmt:
					if x.Tok == token.CONTINUE && x.Label == nil {
						emit("continue->break", x.Pos(), x.End(), "break")
					} else if x.Tok == token.BREAK && x.Label == nil {
						emit("break->continue", x.Pos(), x.End(), "continue")
					}
				case *ast.UnaryExpr:
					if x.Op == token.NOT {
						emit("drop-not", x.OpPos, x.OpPos+1, "")
					}
				}
				return true
			})
		}
	}
}
