#!/usr/bin/env python3
"""mkpatch.py <results.jsonl> <mutant id> : print the mutant as a unified diff against /repo (a/ b/ paths)."""
import json, sys, subprocess, tempfile, os
for l in open(sys.argv[1]):
    m = json.loads(l)
    if m['id'] == sys.argv[2]:
        src = open('/repo/' + m['file'], 'rb').read()
        new = src[:m['start']] + m['repl'].encode() + src[m['end']:]
        t = tempfile.NamedTemporaryFile(delete=False); t.write(new); t.close()
        r = subprocess.run(['diff', '-u', '--label', 'a/' + m['file'], '--label', 'b/' + m['file'], '/repo/' + m['file'], t.name], capture_output=True, text=True)
        os.unlink(t.name)
        sys.stdout.write(r.stdout)
        break
