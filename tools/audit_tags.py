#!/usr/bin/env python3
"""Configuration audit: a unit that filters obligations by tag drops the untagged ones unless it
says all_untagged. Every function whose contract has untagged clauses (ensures / witness / loop
invariants, which other obligations assume) must therefore be checked by at least one unit that
keeps untagged obligations; otherwise an invariant would be assumed without ever being proved.
Exit 1 and name the function when that is not the case."""
import json, re, glob, sys
p = json.load(open('/verif/props.json'))
units = {}
for prop, d in p.items():
    for u in d.get('units', []):
        units.setdefault(u['fn'], []).append((prop, u.get('tags'), u.get('all_untagged')))
cur = None
unt = {}
for f in glob.glob('/repo/**/*contracts_verif.go', recursive=True) + glob.glob('/verif/contracts-lib/*'):
    for l in open(f).read().split('\n'):
        m = re.match(r'//@ (assume )?func (\S+)', l)
        if m:
            cur = None if m.group(1) else m.group(2)
            continue
        m = re.match(r'//@ (loop \d+ invariant|ensures|witness)(\[[^\]]*\])?\s', l)
        if m and cur and not m.group(2):
            unt.setdefault(cur, []).append(l)
bad = 0
for fn, ls in sorted(unt.items()):
    us = units.get(fn, [])
    if not [u for u in us if (not u[1]) or u[2]]:
        print('HOLE: %s has %d untagged clause(s) and no unit that keeps untagged obligations (units: %s)' % (fn, len(ls), us))
        bad += 1
# informational: loop invariants tagged for another property that a unit assumes without proving them itself
# (no all_invariants): the verdict of that unit then rests on the other property's check as well.
inv = {}
cur = None
for f in glob.glob('/repo/**/*contracts_verif.go', recursive=True):
    for l in open(f).read().split('\n'):
        m = re.match(r'//@ (assume )?func (\S+)', l)
        if m:
            cur = None if m.group(1) else m.group(2)
            continue
        m = re.match(r'//@ loop \d+ invariant\[([^\]]*)\]\s', l)
        if m and cur:
            inv.setdefault(cur, []).append(set(m.group(1).split(',')))
dep = 0
for prop, d in p.items():
    for u in d.get('units', []):
        tags = set(u.get('tags') or [])
        if not tags or u.get('all_invariants'):
            continue
        n = len([t for t in inv.get(u['fn'], []) if not (t & tags)])
        if n:
            dep += 1
            print('note: %s unit %s assumes %d loop invariant(s) proved by another property\'s check' % (prop, u['fn'], n))
print('audit_tags: %d function(s) with untagged clauses, %d hole(s), %d unit(s) resting on foreign invariants' % (len(unt), bad, dep))
sys.exit(1 if bad else 0)
