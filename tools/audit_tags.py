#!/usr/bin/env python3
"""Configuration audit: a unit that filters obligations by tag drops the untagged ones unless it
says all_untagged. Every function whose contract has untagged clauses (ensures / witness / loop
invariants, which other obligations assume) must therefore be checked by at least one unit that
keeps untagged obligations; otherwise an invariant would be assumed without ever being proved.
Exit 1 and name the function when that is not the case."""
import json, re, glob, sys
p = json.load(open('/verif/props.json'))
units = {}
for prop, d in p.items():
    for u in d.get('units', []):
        units.setdefault(u['fn'], []).append((prop, u.get('tags'), u.get('all_untagged')))
cur = None
unt = {}
for f in glob.glob('/repo/**/*contracts_verif.go', recursive=True) + glob.glob('/verif/contracts-lib/*'):
    for l in open(f).read().split('\n'):
        m = re.match(r'//@ (assume )?func (\S+)', l)
        if m:
            cur = None if m.group(1) else m.group(2)
            continue
        m = re.match(r'//@ (loop \d+ invariant|ensures|witness)(\[[^\]]*\])?\s', l)
        if m and cur and not m.group(2):
            unt.setdefault(cur, []).append(l)
bad = 0
for fn, ls in sorted(unt.items()):
    us = units.get(fn, [])
    if not [u for u in us if (not u[1]) or u[2]]:
        print('HOLE: %s has %d untagged clause(s) and no unit that keeps untagged obligations (units: %s)' % (fn, len(ls), us))
        bad += 1
print('audit_tags: %d function(s) with untagged clauses, %d hole(s)' % (len(unt), bad))
sys.exit(1 if bad else 0)
