#!/bin/bash
# mk_mutant.sh <name> <property> <expect> <file> <python-replace-old> <python-replace-new>
# creates selftest/mutants/<name>.patch from a single textual replacement in a scratch worktree
name=$1; prop=$2; expect=$3; file=$4; old=$5; new=$6
s=$(mktemp -d); git -C /repo worktree add --detach -q $s/r HEAD
python3 - "$s/r/$file" "$old" "$new" <<'PY'
import sys
p,old,new=sys.argv[1:4]
s=open(p).read()
if old not in s: print("OLD TEXT NOT FOUND in",p); sys.exit(1)
open(p,'w').write(s.replace(old,new,1))
PY
rc=$?
if [ $rc -eq 0 ]; then (echo "# property=$prop expect=$expect"; git -C $s/r diff) > /verif/selftest/mutants/$name.patch; (cd $s/r && GOFLAGS=-mod=mod go build ./... ) || echo "MUTANT DOES NOT COMPILE: $name"; fi
git -C /repo worktree remove --force $s/r; rm -rf $s
