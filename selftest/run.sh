#!/bin/bash
# Must-fail corpus: every patch in selftest/mutants/*.patch (first line: "# property=Cnn expect=<substring of a failing obligation name>")
# is applied to a scratch copy of /repo; the property's quick check must exit 1 and name the expected obligation.
# Usage: selftest/run.sh [name-filter]     (SELFTEST_JOBS=n runs n patches at a time, default 4)
cd "$(dirname "$0")/.."
export GOFLAGS=-mod=mod GOPROXY=off GOSUMDB=off GOTOOLCHAIN=local
one() {
  p=$1
  hdr=$(head -1 "$p"); prop=$(echo "$hdr" | sed -n 's/.*property=\([A-Z0-9]*\).*/\1/p'); expect=$(echo "$hdr" | sed -n 's/.*expect=\(.*\)$/\1/p')
  scratch=$(mktemp -d); vscratch=$(mktemp -d)
  git -C /repo worktree add --detach -q "$scratch/repo" HEAD 2>/dev/null || { echo "SELFTEST MISS $p (cannot create worktree)"; return; }
  # uncommitted contract edits in /repo are part of the tree under test
  (cd /repo && git diff HEAD) | (cd "$scratch/repo" && git apply -q 2>/dev/null)
  for f in $(cd /repo && git ls-files --others --exclude-standard); do mkdir -p "$scratch/repo/$(dirname $f)"; cp "/repo/$f" "$scratch/repo/$f"; done
  if ! (cd "$scratch/repo" && git apply "$OLDPWD/$p" 2>/dev/null); then echo "SELFTEST MISS $p (patch does not apply)"; git -C /repo worktree remove --force "$scratch/repo"; rm -rf "$scratch" "$vscratch"; return; fi
  for f in props.json known_findings.json contracts-lib lemmas bounded oracles hints; do [ -e "$f" ] && ln -s "$PWD/$f" "$vscratch/$f"; done
  out=$(./bin/govc check -repo "$scratch/repo" -verif "$vscratch" -prop "$prop" -tier quick 2>&1); code=$?
  if [ $code -eq 1 ] && echo "$out" | grep -q "VIOLATION.*$expect"; then echo "SELFTEST ok   $p ($prop: $(echo "$out" | grep -c VIOLATION) violation(s))";
  else echo "SELFTEST MISS $p (exit $code, expected obligation ~ $expect)"; echo "$out" | tail -5 | sed 's/^/    /'; fi
  git -C /repo worktree remove --force "$scratch/repo"; rm -rf "$scratch" "$vscratch"
}
export -f one
# configuration audit first: no contract clause may be assumed without some unit proving it
python3 tools/audit_tags.py || { echo "selftest: configuration audit failed"; exit 1; }
ls selftest/mutants/*${1}*.patch | xargs -P ${SELFTEST_JOBS:-4} -I{} bash -c 'one {}' > /tmp/selftest.$$.out 2>&1
cat /tmp/selftest.$$.out
pass=$(grep -c '^SELFTEST ok' /tmp/selftest.$$.out); fail=$(grep -c '^SELFTEST MISS' /tmp/selftest.$$.out); rm -f /tmp/selftest.$$.out
echo "selftest: $pass caught, $fail missed"
[ "$fail" -eq 0 ]
