#!/bin/bash
# Must-fail corpus: every patch in selftest/mutants/*.patch (first line: "# property=Cnn expect=<substring of a failing obligation name>")
# is applied to a scratch copy of /repo; the property's quick check must exit 1 and name the expected obligation.
# Usage: selftest/run.sh [name-filter]
cd "$(dirname "$0")/.."
export GOFLAGS=-mod=mod GOPROXY=off GOSUMDB=off GOTOOLCHAIN=local
pass=0; fail=0
for p in selftest/mutants/*${1}*.patch; do
  hdr=$(head -1 "$p"); prop=$(echo "$hdr" | sed -n 's/.*property=\([A-Z0-9]*\).*/\1/p'); expect=$(echo "$hdr" | sed -n 's/.*expect=\(.*\)$/\1/p')
  scratch=$(mktemp -d); vscratch=$(mktemp -d)
  git -C /repo worktree add --detach -q "$scratch/repo" HEAD 2>/dev/null || { echo "cannot create worktree"; exit 2; }
  # uncommitted contract edits in /repo are part of the tree under test
  (cd /repo && git diff HEAD) | (cd "$scratch/repo" && git apply -q 2>/dev/null)
  for f in $(cd /repo && git ls-files --others --exclude-standard); do mkdir -p "$scratch/repo/$(dirname $f)"; cp "/repo/$f" "$scratch/repo/$f"; done
  if ! (cd "$scratch/repo" && git apply "$OLDPWD/$p" 2>/dev/null); then echo "SELFTEST $p: patch does not apply"; fail=$((fail+1)); git -C /repo worktree remove --force "$scratch/repo"; rm -rf "$scratch" "$vscratch"; continue; fi
  for f in props.json known_findings.json contracts-lib lemmas bounded oracles hints; do [ -e "$f" ] && ln -s "$PWD/$f" "$vscratch/$f"; done
  out=$(./bin/govc check -repo "$scratch/repo" -verif "$vscratch" -prop "$prop" -tier quick 2>&1); code=$?
  if [ $code -eq 1 ] && echo "$out" | grep -q "VIOLATION.*$expect"; then echo "SELFTEST ok   $p ($prop: $(echo "$out" | grep -c VIOLATION) violation(s))"; pass=$((pass+1));
  else echo "SELFTEST MISS $p (exit $code, expected obligation ~ $expect)"; echo "$out" | tail -5 | sed 's/^/    /'; fail=$((fail+1)); fi
  git -C /repo worktree remove --force "$scratch/repo"; rm -rf "$scratch" "$vscratch"
done
echo "selftest: $pass caught, $fail missed"
[ $fail -eq 0 ]
