#!/usr/bin/env python3
# Regenerates MANIFEST.json from the table below (claimed checks) and properties.jsonl.
import json, subprocess
props = [json.loads(l) for l in open('/verif/properties.jsonl')]
claimed = json.load(open('/verif/claims.json'))   # id -> {text, note, technique, design_ref}
hooks_commits = subprocess.run(['git','-C','/repo','log','--format=%h %s','--grep=^verif:'],capture_output=True,text=True).stdout.strip().split('\n')
checks=[]; na=[]
for p in props:
    i=p['id']
    if i in claimed and claimed[i].get('claim',True):
        c=claimed[i]
        checks.append({
          "property_id": i,
          "quick_cmd": f"./check {i} quick",
          "thorough_cmd": f"./check {i} thorough",
          "evidence_file": f"/verif/evidence/{i}.json",
          "replay_cmd_template": "cat {path}",
          "engine": "govc",
          "level_claimed": {"category":"proof","text":c['text'],"design_ref":c.get('design_ref','DESIGN.md §4')},
          "level_note": c['note'],
          "technique": c.get('technique',"contract-based deductive verification: VCs generated from go/ssa of /repo + //@ contracts, discharged by z3/cvc5"),
        })
    else:
        reason = claimed.get(i,{}).get('na_reason',"check under construction (interim state; see DESIGN.md)")
        na.append({"property_id":i,"reason":reason})
m={"version":1,
 "setup_cmd":"cd engine && GOFLAGS=-mod=mod GOPROXY=off GOSUMDB=off GOTOOLCHAIN=local go build -o ../bin/govc .",
 "hooks":{"guard":"verif","enable":"go build -tags verif ./... (the hook files *contracts_verif.go are comment-only: //@ contract lines read by govc)",
   "baseline_off_cmd":"cd /repo && GOFLAGS=-mod=mod go test -json -vet=off -count=1 -timeout 25m ./...",
   "source_commits":[c.split()[0] for c in hooks_commits if c],"add_only":True},
 "engines":[{"name":"govc","path":"engine","serves_properties":[c['property_id'] for c in checks],
   "kind_free_text":"deductive verifier built here: verification-condition generator over go/ssa (x/tools v0.29.0) with Gobra-style //@ contracts, component heap, loop invariants (annotated + Houdini-inferred), assumed contracts for stdlib; back ends z3 5.1.0, cvc5 1.0, z3 4.8.12"}],
 "checks":checks,
 "not_applicable":na,
 "notes":"Every check rebuilds its obligations from /repo's working tree. Exit 0 = all obligations discharged (KNOWN-FINDING lines for findings listed in known_findings.json); exit 1 = VIOLATION lines; exit 2 = infrastructure failure only."}
json.dump(m,open('/verif/MANIFEST.json','w'),indent=1)
print(len(checks),'claimed',len(na),'n/a')
