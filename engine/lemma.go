package main

// Level-2 lemma files: SMT-LIB text with a common preamble and sections
// introduced by ";; GOAL <name>"; every section must be unsat together with
// the preamble.

import (
	"os"
	"path/filepath"
	"strings"
)

func lemmaObligations(verif string, files []string) ([]*Obligation, []string) {
	var out []*Obligation
	var errs []string
	for _, f := range files {
		data, err := os.ReadFile(filepath.Join(verif, f))
		if err != nil {
			errs = append(errs, "lemma file missing: "+f)
			continue
		}
		var pre []string
		var cur []string
		name := ""
		tags := []string{}
		flush := func() {
			if name == "" {
				return
			}
			raw := append(append([]string{}, pre...), cur...)
			raw = append(raw, "(check-sat)")
			out = append(out, &Obligation{Name: "lemma/" + filepath.Base(f) + "/" + name, Kind: "lemma", Desc: "Level-2 lemma " + name, Unit: f, Raw: raw, Tags: tags})
		}
		for _, line := range strings.Split(string(data), "\n") {
			if strings.HasPrefix(line, ";; GOAL ") {
				flush()
				name = strings.TrimSpace(strings.TrimPrefix(line, ";; GOAL "))
				cur = nil
				continue
			}
			if strings.HasPrefix(strings.TrimSpace(line), "(check-sat)") {
				continue
			}
			if name == "" {
				pre = append(pre, line)
			} else {
				cur = append(cur, line)
			}
		}
		flush()
		if name == "" {
			errs = append(errs, "lemma file has no goals: "+f)
		}
	}
	return out, errs
}
