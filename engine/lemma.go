package main

// Level-2 lemma files: SMT-LIB text with a common preamble and sections
// introduced by ";; GOAL <name>"; every section must be unsat together with
// the preamble.

import (
	"fmt"
	"os"
	"path/filepath"
	"strings"
)

// recText returns the SMT declarations and defining axioms of the named
// recursive spec functions / predicates exactly as Level 1 emits them.
func (eng *Engine) recText(pkgSuffix string, names []string) ([]string, error) {
	ex := newExec(eng, "lemma-export")
	pkg := eng.pkgBySuffix(pkgSuffix)
	if pkg == nil {
		return nil, fmt.Errorf("unknown package %q", pkgSuffix)
	}
	st := newState()
	q := 0
	env := &SpecEnv{ex: ex, cur: st, vars: map[string]Val{}, pkg: pkg, qn: &q, exportRec: true, noUnfold: true}
	start := ex.sc.pos()
	var err error
	func() {
		defer func() {
			if r := recover(); r != nil {
				err = fmt.Errorf("%v", r)
			}
		}()
		for _, n := range names {
			pd := eng.specs.Preds[n]
			if pd == nil {
				panic("no spec function " + n)
			}
			// apply the function to fresh arguments to force its declaration
			var args []*Node
			for i, p := range pd.Params {
				nm := fmt.Sprintf("exp_%s_%d", n, i)
				t := env.resolveType(p.Type)
				if t == nil {
					env.vars[nm] = mathInt(ex.sc.fresh(nm, sInt))
				} else {
					env.vars[nm] = ex.freshVal(nil, t, nm)
				}
				args = append(args, &Node{Kind: "ident", Name: nm})
			}
			if pd.Rec {
				env.evalRec(pd, args)
			} else {
				// plain spec function: export as define-fun over its scalar parameters
				var binders []string
				c := env.child()
				for _, p := range pd.Params {
					t := env.resolveType(p.Type)
					srt := sInt
					if t != nil {
						srt = flatten(t)[0].Sort
					}
					b := "a_" + p.Name
					binders = append(binders, "("+b+" "+srt+")")
					if t == nil {
						c.vars[p.Name] = mathInt(b)
					} else {
						c.vars[p.Name] = Val{T: t, L: []string{b}}
					}
				}
				ex.sc.pure++
				body := c.eval(pd.Body)
				ex.sc.pure--
				ret := sInt
				if body.isBool() {
					ret = sBool
				}
				ex.sc.emit("(define-fun spec_" + n + " (" + strings.Join(binders, " ") + ") " + ret + " " + body.L[0] + ")")
			}
		}
	}()
	if err != nil {
		return nil, err
	}
	var out []string
	for _, l := range ex.sc.lines[start:] {
		if strings.Contains(l, "rec_") || strings.HasPrefix(l, "(define-fun spec_") || strings.Contains(l, "pow2") || strings.Contains(l, "bvor_") || strings.Contains(l, "bvand_") {
			out = append(out, l)
		}
	}
	return out, nil
}

func (eng *Engine) lemmaObligations(verif string, files []string) ([]*Obligation, []string) {
	var out []*Obligation
	var errs []string
	for _, f := range files {
		data, err := os.ReadFile(filepath.Join(verif, f))
		if err != nil {
			errs = append(errs, "lemma file missing: "+f)
			continue
		}
		var pre []string
		var cur []string
		name := ""
		tags := []string{}
		flush := func() {
			if name == "" {
				return
			}
			raw := append(append([]string{}, pre...), cur...)
			raw = append(raw, "(check-sat)")
			out = append(out, &Obligation{Name: "lemma/" + filepath.Base(f) + "/" + name, Kind: "lemma", Desc: "Level-2 lemma " + name, Unit: f, Raw: raw, Tags: tags})
		}
		for _, line := range strings.Split(string(data), "\n") {
			if strings.HasPrefix(line, ";; USE-SPEC ") {
				// ;; USE-SPEC <package suffix or .> name1 name2 ...
				f := strings.Fields(strings.TrimPrefix(line, ";; USE-SPEC "))
				pk := f[0]
				if pk == "." {
					pk = ""
				}
				txt, err := eng.recText(pk, f[1:])
				if err != nil {
					errs = append(errs, "lemma file "+fpath(f)+": "+err.Error())
					continue
				}
				pre = append(pre, txt...)
				continue
			}
			if strings.HasPrefix(line, ";; PREAMBLE") {
				flush()
				name = ""
				cur = nil
				continue
			}
			if strings.HasPrefix(line, ";; GOAL ") {
				flush()
				name = strings.TrimSpace(strings.TrimPrefix(line, ";; GOAL "))
				cur = nil
				continue
			}
			if strings.HasPrefix(strings.TrimSpace(line), "(check-sat)") {
				continue
			}
			if name == "" {
				pre = append(pre, line)
			} else {
				cur = append(cur, line)
			}
		}
		flush()
		if len(out) == 0 {
			errs = append(errs, "lemma file has no goals: "+f)
		}
	}
	return out, errs
}

func fpath(f []string) string { return strings.Join(f, " ") }
