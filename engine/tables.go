package main

// table / layout / consts obligations: ground facts extracted from the typed
// AST of the real files, goals discharged by the solver.

func (eng *Engine) tableObligations(prop string, ps *PropSpec) ([]*Obligation, []string) {
	return nil, nil
}
