package main

// table / layout / consts obligations: ground facts are extracted from the
// typed AST of the real files (constant folding by go/types), the UAPI oracle
// is read from /verif/oracles/uapi_audit.spec, and every goal is discharged by
// the solver over those facts.

import (
	"fmt"
	"go/ast"
	"go/constant"
	"go/types"
	"os"
	"path/filepath"
	"sort"
	"strings"

	"golang.org/x/tools/go/packages"
	"gopkg.in/yaml.v3"
)

type tblEntry struct {
	Key, Val interface{} // int64 | string | []tblEntry (nested map)
}

type oracle struct {
	vals    map[string]map[string]int64 // section -> name -> value
	layouts map[string][]layoutField
	sizes   map[string]int64
	src     map[string]string
}

type layoutField struct {
	name string
	off  int64
	size int64
}

func loadOracle(verif string) (*oracle, error) {
	data, err := os.ReadFile(filepath.Join(verif, "oracles", "uapi_audit.spec"))
	if err != nil {
		return nil, err
	}
	o := &oracle{vals: map[string]map[string]int64{}, layouts: map[string][]layoutField{}, sizes: map[string]int64{}, src: map[string]string{}}
	section := ""
	for _, line := range strings.Split(string(data), "\n") {
		if i := strings.Index(line, "#"); i >= 0 {
			line = line[:i]
		}
		f := strings.Fields(line)
		if len(f) == 0 {
			continue
		}
		switch f[0] {
		case "section":
			section = f[1]
			if o.vals[section] == nil {
				o.vals[section] = map[string]int64{}
			}
		case "struct":
			// struct <name> size <n> : field@off:size ...
			name := f[1]
			var sz int64
			fmt.Sscanf(f[3], "%d", &sz)
			o.sizes[name] = sz
			for _, fs := range f[4:] {
				var lf layoutField
				parts := strings.FieldsFunc(fs, func(r rune) bool { return r == '@' || r == ':' })
				if len(parts) != 3 {
					continue
				}
				lf.name = parts[0]
				fmt.Sscanf(parts[1], "%d", &lf.off)
				fmt.Sscanf(parts[2], "%d", &lf.size)
				o.layouts[name] = append(o.layouts[name], lf)
			}
		default:
			if len(f) >= 2 && section != "" {
				var v int64
				if _, err := fmt.Sscanf(f[1], "%v", &v); err != nil {
					continue
				}
				o.vals[section][f[0]] = v
			}
		}
	}
	return o, nil
}

func (eng *Engine) findPkg(suffix string) *packages.Package {
	path := eng.modulePath
	if suffix != "" && suffix != "." {
		path += "/" + suffix
	}
	var found *packages.Package
	packages.Visit(eng.pkgs, nil, func(p *packages.Package) {
		if p.PkgPath == path {
			found = p
		}
	})
	return found
}

// constOf evaluates a constant expression node.
func constOf(info *types.Info, e ast.Expr) (interface{}, bool) {
	tv, ok := info.Types[e]
	if !ok || tv.Value == nil {
		return nil, false
	}
	switch tv.Value.Kind() {
	case constant.String:
		return constant.StringVal(tv.Value), true
	case constant.Int:
		if v, ok := constant.Int64Val(tv.Value); ok {
			return v, true
		}
		if v, ok := constant.Uint64Val(tv.Value); ok {
			return int64(v), true
		}
	}
	return nil, false
}

// tableLiteral extracts the entries of a package-level map literal "pkg.name".
func (eng *Engine) tableLiteral(ref string) ([]tblEntry, error) {
	i := strings.LastIndex(ref, ".")
	if i < 0 {
		return nil, fmt.Errorf("table reference %q needs pkg.name", ref)
	}
	pk := eng.findPkg(ref[:i])
	if pk == nil {
		return nil, fmt.Errorf("unknown package %q", ref[:i])
	}
	name := ref[i+1:]
	for _, f := range pk.Syntax {
		for _, d := range f.Decls {
			gd, ok := d.(*ast.GenDecl)
			if !ok {
				continue
			}
			for _, sp := range gd.Specs {
				vs, ok := sp.(*ast.ValueSpec)
				if !ok {
					continue
				}
				for k, n := range vs.Names {
					if n.Name != name || k >= len(vs.Values) {
						continue
					}
					cl, ok := vs.Values[k].(*ast.CompositeLit)
					if !ok {
						return nil, fmt.Errorf("%s is not initialised by a composite literal", ref)
					}
					return litEntries(pk.TypesInfo, cl)
				}
			}
		}
	}
	return nil, fmt.Errorf("table %s not found", ref)
}

func litEntries(info *types.Info, cl *ast.CompositeLit) ([]tblEntry, error) {
	var out []tblEntry
	for _, el := range cl.Elts {
		kv, ok := el.(*ast.KeyValueExpr)
		if !ok {
			return nil, fmt.Errorf("non key-value element in table literal")
		}
		k, ok := constOf(info, kv.Key)
		if !ok {
			return nil, fmt.Errorf("non-constant key in table literal")
		}
		if inner, ok := kv.Value.(*ast.CompositeLit); ok {
			sub, err := litEntries(info, inner)
			if err != nil {
				return nil, err
			}
			out = append(out, tblEntry{k, sub})
			continue
		}
		v, ok := constOf(info, kv.Value)
		if !ok {
			return nil, fmt.Errorf("non-constant value in table literal")
		}
		out = append(out, tblEntry{k, v})
	}
	return out, nil
}

// interning of strings so that the solver sees integers
type interner struct {
	ids  map[string]int64
	strs []string
}

func (in *interner) id(v interface{}) string {
	switch x := v.(type) {
	case int64:
		return num(x)
	case string:
		if id, ok := in.ids[x]; ok {
			return num(id)
		}
		id := int64(1000000 + len(in.ids))
		in.ids[x] = id
		in.strs = append(in.strs, x)
		return num(id)
	}
	return "0"
}

func groundQuery(facts []string, goal string) []string {
	q := []string{"(set-logic ALL)"}
	q = append(q, facts...)
	q = append(q, "(assert (not "+goal+"))", "(check-sat)")
	return q
}

// mapFacts declares a total function name : Int -> Int with a domain predicate
// and asserts one fact per entry.
func mapFacts(name string, entries []tblEntry, in *interner) []string {
	out := []string{
		"(declare-fun " + name + " (Int) Int)",
		"(declare-fun " + name + "_in (Int) Bool)",
	}
	var keys []string
	for _, e := range entries {
		k := in.id(e.Key)
		keys = append(keys, k)
		out = append(out, "(assert (= ("+name+" "+k+") "+in.id(e.Val)+"))")
	}
	// domain: positive facts only (goals are ground; a key that is not listed is
	// unconstrained, so a goal that needs it cannot be proved)
	for _, k := range keys {
		out = append(out, "(assert ("+name+"_in "+k+"))")
	}
	return out
}

func (eng *Engine) tableObligations(prop string, ps *PropSpec) ([]*Obligation, []string) {
	var obls []*Obligation
	var notes []string
	var orc *oracle
	verif := eng.verifDir
	add := func(ts *TableSpec, name, desc string, q []string) {
		if len(ts.diag) > 0 {
			desc += " -- entries that do not satisfy it (diagnostic, computed outside the solver): " + strings.Join(ts.diag, ", ")
			ts.diag = nil
		}
		obls = append(obls, &Obligation{Name: "table/" + name, Kind: "table", Tags: ts.Tags, Pos: ts.Src, Desc: desc, Unit: ts.Head, Raw: q})
	}
	for _, ts := range eng.specs.Tables {
		has := false
		for _, t := range ts.Tags {
			if t == prop {
				has = true
			}
		}
		if !has {
			continue
		}
		if orc == nil {
			o, err := loadOracle(verif)
			if err != nil {
				notes = append(notes, "oracle: "+err.Error())
				return obls, notes
			}
			orc = o
		}
		f := strings.Fields(ts.Head)
		fail := func(err error) { notes = append(notes, ts.Src+": "+ts.Kind+" "+ts.Head+": "+err.Error()) }
		in := &interner{ids: map[string]int64{}}
		switch ts.Kind {
		case "consts":
			// consts pkg NAME=ORACLE_SECTION.ORACLE_NAME ...
			pk := eng.findPkg(f[0])
			if pk == nil {
				fail(fmt.Errorf("unknown package"))
				continue
			}
			for _, item := range f[1:] {
				parts := strings.SplitN(item, "=", 2)
				if len(parts) != 2 {
					fail(fmt.Errorf("bad item %q", item))
					continue
				}
				obj := pk.Types.Scope().Lookup(parts[0])
				c, ok := obj.(*types.Const)
				if !ok {
					fail(fmt.Errorf("no constant %s", parts[0]))
					continue
				}
				goVal, ok := constant.Int64Val(constant.ToInt(c.Val()))
				if !ok {
					fail(fmt.Errorf("constant %s is not an integer", parts[0]))
					continue
				}
				op := strings.SplitN(parts[1], ".", 2)
				if len(op) != 2 {
					fail(fmt.Errorf("oracle reference %q needs section.name", parts[1]))
					continue
				}
				want, ok := orc.vals[op[0]][op[1]]
				if !ok {
					fail(fmt.Errorf("oracle has no %s", parts[1]))
					continue
				}
				facts := []string{"(declare-fun go_value () Int)", "(declare-fun uapi_value () Int)",
					fmt.Sprintf("(assert (= go_value %s))", num(goVal)), fmt.Sprintf("(assert (= uapi_value %s))", num(want))}
				add(ts, "const/"+f[0]+"."+parts[0], fmt.Sprintf("constant %s equals UAPI %s (%d)", parts[0], parts[1], want), groundQuery(facts, "(= go_value uapi_value)"))
			}
		case "layout":
			// layout pkg GoType oracle_struct
			pk := eng.findPkg(f[0])
			if pk == nil || len(f) < 3 {
				fail(fmt.Errorf("layout pkg GoType oracle_struct"))
				continue
			}
			var t types.Type
			if strings.Contains(f[1], "/") || strings.HasPrefix(f[1], "syscall.") {
				ip := eng.prog.ImportedPackage(f[1][:strings.LastIndex(f[1], ".")])
				if ip == nil {
					fail(fmt.Errorf("unknown package for %s", f[1]))
					continue
				}
				t = ip.Pkg.Scope().Lookup(f[1][strings.LastIndex(f[1], ".")+1:]).Type()
			} else {
				o := pk.Types.Scope().Lookup(f[1])
				if o == nil {
					fail(fmt.Errorf("no type %s", f[1]))
					continue
				}
				t = o.Type()
			}
			st, ok := t.Underlying().(*types.Struct)
			if !ok {
				fail(fmt.Errorf("%s is not a struct", f[1]))
				continue
			}
			want, ok := orc.layouts[f[2]]
			if !ok {
				fail(fmt.Errorf("oracle has no struct %s", f[2]))
				continue
			}
			var fields []*types.Var
			for i := 0; i < st.NumFields(); i++ {
				fields = append(fields, st.Field(i))
			}
			offs := sizes.Offsetsof(fields)
			facts := []string{"(declare-fun go_off (Int) Int)", "(declare-fun go_size (Int) Int)", "(declare-fun c_off (Int) Int)", "(declare-fun c_size (Int) Int)",
				"(declare-fun go_n () Int)", "(declare-fun c_n () Int)", "(declare-fun go_total () Int)", "(declare-fun c_total () Int)"}
			facts = append(facts, fmt.Sprintf("(assert (= go_n %d))", len(fields)), fmt.Sprintf("(assert (= c_n %d))", len(want)),
				fmt.Sprintf("(assert (= go_total %d))", sizes.Sizeof(t)), fmt.Sprintf("(assert (= c_total %d))", orc.sizes[f[2]]))
			var goals []string
			goals = append(goals, "(= go_n c_n)", "(= go_total c_total)")
			for i := range fields {
				facts = append(facts, fmt.Sprintf("(assert (= (go_off %d) %d))", i, offs[i]), fmt.Sprintf("(assert (= (go_size %d) %d))", i, sizes.Sizeof(fields[i].Type())))
				if i < len(want) {
					facts = append(facts, fmt.Sprintf("(assert (= (c_off %d) %d))", i, want[i].off), fmt.Sprintf("(assert (= (c_size %d) %d))", i, want[i].size))
					goals = append(goals, fmt.Sprintf("(= (go_off %d) (c_off %d))", i, i), fmt.Sprintf("(= (go_size %d) (c_size %d))", i, i))
				}
			}
			add(ts, "layout/"+f[1], fmt.Sprintf("layout of %s equals struct %s of the UAPI oracle (offsets, sizes, order, total size)", f[1], f[2]),
				groundQuery(facts, "(and "+strings.Join(goals, " ")+")"))
		case "table":
			eng.tableGoal(ts, f, in, orc, add, fail)
		}
	}
	return obls, notes
}

func (eng *Engine) tableGoal(ts *TableSpec, f []string, in *interner, orc *oracle, add func(*TableSpec, string, string, []string), fail func(error)) {
	if len(f) < 2 {
		fail(fmt.Errorf("table <kind> <args>"))
		return
	}
	switch f[0] {
	case "inverse", "maps-back":
		if len(f) < 3 {
			fail(fmt.Errorf("needs two tables"))
			return
		}
		a, err := eng.tableLiteral(f[1])
		if err != nil {
			fail(err)
			return
		}
		b, err := eng.tableLiteral(f[2])
		if err != nil {
			fail(err)
			return
		}
		facts := append(mapFacts("A", a, in), mapFacts("B", b, in)...)
		var gs []string
		var bad []string
		bm := map[interface{}]interface{}{}
		am := map[interface{}]interface{}{}
		for _, e := range b {
			bm[e.Key] = e.Val
		}
		for _, e := range a {
			am[e.Key] = e.Val
		}
		for _, e := range a {
			k, v := in.id(e.Key), in.id(e.Val)
			gs = append(gs, fmt.Sprintf("(and (B_in %s) (= (B %s) %s))", v, v, k))
			if bm[e.Val] != e.Key {
				bad = append(bad, fmt.Sprint(e.Key, "->", e.Val))
			}
		}
		for _, e := range b {
			k, v := in.id(e.Key), in.id(e.Val)
			if f[0] == "inverse" {
				gs = append(gs, fmt.Sprintf("(and (A_in %s) (= (A %s) %s))", v, v, k))
				if am[e.Val] != e.Key {
					bad = append(bad, fmt.Sprint(e.Key, "->", e.Val))
				}
			} else {
				// every name of B maps to a number that has a name (aliases resolve to that number)
				gs = append(gs, fmt.Sprintf("(A_in %s)", v))
				if _, ok := am[e.Val]; !ok {
					bad = append(bad, fmt.Sprint(e.Key, "->", e.Val))
				}
			}
		}
		goal := "(and " + strings.Join(gs, " ") + " true)"
		ts.diag = bad
		add(ts, f[0]+"/"+f[1], fmt.Sprintf("%s and %s are %s (%d / %d entries)", f[1], f[2], f[0], len(a), len(b)), groundQuery(facts, goal))
	case "injective":
		a, err := eng.tableLiteral(f[1])
		if err != nil {
			fail(err)
			return
		}
		facts := mapFacts("A", a, in)
		add(ts, "injective/"+f[1], fmt.Sprintf("%s maps distinct keys to distinct values (%d entries)", f[1], len(a)),
			groundQuery(facts, distinctGoal("A", a, in)))
	case "injective-nested":
		a, err := eng.tableLiteral(f[1])
		if err != nil {
			fail(err)
			return
		}
		for _, e := range a {
			sub, ok := e.Val.([]tblEntry)
			if !ok {
				fail(fmt.Errorf("not a nested table"))
				return
			}
			facts := mapFacts("A", sub, in)
			add(ts, fmt.Sprintf("injective/%s[%v]", f[1], e.Key), fmt.Sprintf("%s[%v]: a name maps to one number (%d entries)", f[1], e.Key, len(sub)),
				groundQuery(facts, distinctGoal("A", sub, in)))
		}
	case "symmetric":
		a, err := eng.tableLiteral(f[1])
		if err != nil {
			fail(err)
			return
		}
		facts := []string{"(declare-fun A (Int Int) Int)", "(declare-fun A_in (Int Int) Bool)"}
		var gs []string
		for _, e := range a {
			sub, _ := e.Val.([]tblEntry)
			for _, s := range sub {
				x, y := in.id(e.Key), in.id(s.Key)
				facts = append(facts, fmt.Sprintf("(assert (= (A %s %s) %s))", x, y, in.id(s.Val)), fmt.Sprintf("(assert (A_in %s %s))", x, y))
				gs = append(gs, fmt.Sprintf("(and (A_in %s %s) (= (A %s %s) (A %s %s)))", y, x, x, y, y, x))
			}
		}
		add(ts, "symmetric/"+f[1], f[1]+" is symmetric: (a,b) and (b,a) are both present with the same code",
			groundQuery(facts, "(and "+strings.Join(gs, " ")+" true)"))
	case "names-canonical":
		// every value is its own upper-case form and contains no '['
		a, err := eng.tableLiteral(f[1])
		if err != nil {
			fail(err)
			return
		}
		facts := []string{"(declare-fun lower_or_bracket (Int) Bool)"}
		var goals []string
		for _, e := range a {
			s, _ := e.Val.(string)
			id := in.id(s)
			bad := "false"
			for i := 0; i < len(s); i++ {
				if (s[i] >= 'a' && s[i] <= 'z') || s[i] == '[' || s[i] >= 128 {
					bad = "true"
				}
			}
			facts = append(facts, fmt.Sprintf("(assert (= (lower_or_bracket %s) %s))", id, bad))
			goals = append(goals, fmt.Sprintf("(not (lower_or_bracket %s))", id))
		}
		add(ts, "names-canonical/"+f[1], fmt.Sprintf("every name in %s is upper-case ASCII without '[' (%d names)", f[1], len(a)),
			groundQuery(facts, "(and "+strings.Join(goals, " ")+" true)"))
	case "oracle":
		// oracle <table> <section>: every key of the table is an oracle name of that section with the table's value
		a, err := eng.tableLiteral(f[1])
		if err != nil {
			fail(err)
			return
		}
		sec := orc.vals[f[2]]
		if sec == nil {
			fail(fmt.Errorf("oracle has no section %s", f[2]))
			return
		}
		facts := mapFacts("A", a, in)
		facts = append(facts, "(declare-fun U (Int) Int)", "(declare-fun U_in (Int) Bool)")
		names := make([]string, 0, len(sec))
		for n := range sec {
			names = append(names, n)
		}
		sort.Strings(names)
		for _, n := range names {
			facts = append(facts, fmt.Sprintf("(assert (= (U %s) %s))", in.id(n), num(sec[n])), fmt.Sprintf("(assert (U_in %s))", in.id(n)))
		}
		var gs []string
		var bad []string
		for _, e := range a {
			k := in.id(e.Key)
			gs = append(gs, fmt.Sprintf("(and (U_in %s) (= (A %s) (U %s)))", k, k, k))
			if ks, ok := e.Key.(string); ok {
				if want, ok2 := sec[ks]; !ok2 || want != e.Val {
					bad = append(bad, fmt.Sprint(e.Key, "=", e.Val))
				}
			}
		}
		ts.diag = bad
		add(ts, "oracle/"+f[1], fmt.Sprintf("every entry of %s carries the UAPI number of its name (oracle section %s, %d entries)", f[1], f[2], len(a)),
			groundQuery(facts, "(and "+strings.Join(gs, " ")+" true)"))
	case "yaml-subset":
		// yaml-subset <pkg-relative yaml file> <field> <table> [nested] [allow=*]
		eng.yamlGoal(ts, f, in, add, fail)
	default:
		fail(fmt.Errorf("unknown table goal %s", f[0]))
	}
}

type normDoc struct {
	Normalizations []struct {
		RecordTypes yamlStrings `yaml:"record_types"`
		Syscalls    yamlStrings `yaml:"syscalls"`
		HasFields   yamlStrings `yaml:"has_fields"`
	} `yaml:"normalizations"`
}

type yamlStrings []string

func (s *yamlStrings) UnmarshalYAML(n *yaml.Node) error {
	var one string
	if err := n.Decode(&one); err == nil {
		*s = []string{one}
		return nil
	}
	var many []string
	if err := n.Decode(&many); err != nil {
		return err
	}
	*s = many
	return nil
}

func (eng *Engine) yamlGoal(ts *TableSpec, f []string, in *interner, add func(*TableSpec, string, string, []string), fail func(error)) {
	if len(f) < 4 {
		fail(fmt.Errorf("yaml-subset file field table"))
		return
	}
	data, err := os.ReadFile(filepath.Join(eng.repoDir, f[1]))
	if err != nil {
		fail(err)
		return
	}
	var doc normDoc
	if err := yaml.Unmarshal(data, &doc); err != nil {
		fail(err)
		return
	}
	tbl, err := eng.tableLiteral(f[3])
	if err != nil {
		fail(err)
		return
	}
	facts := []string{"(declare-fun known (Int) Bool)"}
	knownSet := map[string]bool{}
	var dom []string
	var collect func(es []tblEntry, nested bool)
	collect = func(es []tblEntry, nested bool) {
		for _, e := range es {
			if sub, ok := e.Val.([]tblEntry); ok {
				for _, s := range sub {
					if v, ok := s.Val.(string); ok {
						dom = append(dom, in.id(v))
						knownSet[v] = true
					}
				}
				continue
			}
			if k, ok := e.Key.(string); ok {
				dom = append(dom, in.id(k))
				knownSet[k] = true
			}
		}
	}
	collect(tbl, false)
	for _, a := range f[4:] {
		if strings.HasPrefix(a, "allow=") {
			dom = append(dom, in.id(strings.TrimPrefix(a, "allow=")))
			knownSet[strings.TrimPrefix(a, "allow=")] = true
		}
	}
	seenDom := map[string]bool{}
	for _, d := range dom {
		if !seenDom[d] {
			seenDom[d] = true
			facts = append(facts, "(assert (known "+d+"))")
		}
	}
	var items []string
	count := map[string]int{}
	unq := map[string]int{}
	for _, n := range doc.Normalizations {
		var vals []string
		switch f[2] {
		case "record_types":
			vals = n.RecordTypes
			if len(n.HasFields) == 0 {
				for _, v := range vals {
					unq[v]++
				}
			}
		case "syscalls":
			vals = n.Syscalls
		}
		for _, v := range vals {
			items = append(items, v)
			count[v]++
		}
	}
	var gs []string
	var bad []string
	seen := map[string]bool{}
	for _, v := range items {
		if !seen[v] {
			seen[v] = true
			gs = append(gs, "(known "+in.id(v)+")")
			if !knownSet[v] {
				bad = append(bad, v)
			}
		}
	}
	ts.diag = bad
	add(ts, "yaml-subset/"+f[2], fmt.Sprintf("every %s entry of %s is a name of %s (%d distinct entries)", f[2], f[1], f[3], len(seen)),
		groundQuery(facts, "(and "+strings.Join(gs, " ")+" true)"))
	// uniqueness goals
	facts2 := []string{"(declare-fun times (Int) Int)"}
	var goals []string
	keys := make([]string, 0, len(count))
	for k := range count {
		keys = append(keys, k)
	}
	sort.Strings(keys)
	for _, k := range keys {
		c := count[k]
		if f[2] == "record_types" {
			c = unq[k]
		}
		facts2 = append(facts2, fmt.Sprintf("(assert (= (times %s) %d))", in.id(k), c))
		goals = append(goals, fmt.Sprintf("(<= (times %s) 1)", in.id(k)))
	}
	what := "no syscall is listed twice"
	if f[2] == "record_types" {
		what = "at most one unqualified (no has_fields) normalisation per record type"
	}
	add(ts, "yaml-unique/"+f[2], what+" in "+f[1], groundQuery(facts2, "(and "+strings.Join(goals, " ")+" true)"))
}

func distinctGoal(name string, entries []tblEntry, in *interner) string {
	if len(entries) < 2 {
		return "true"
	}
	var ts []string
	for _, e := range entries {
		ts = append(ts, "("+name+" "+in.id(e.Key)+")")
	}
	return "(distinct " + strings.Join(ts, " ") + ")"
}
