package main

// Property checks: `govc check -prop Cnn -tier quick|thorough`.
// Exit 0: every obligation discharged (known findings are printed and skipped);
// exit 1: a VIOLATION line per failed obligation; exit 2: infrastructure failure.

import (
	"encoding/json"
	"fmt"
	"os"
	"path/filepath"
	"sort"
	"strconv"
	"strings"
	"time"
)

type PropSpec struct {
	Title    string       `json:"title"`
	Units    []UnitSpec   `json:"units"`
	Tables   []string     `json:"tables,omitempty"`  // table/layout/consts spec heads to check (by tag = property id if empty)
	Lemmas   []string     `json:"lemmas,omitempty"`  // SMT-LIB files with Level-2 goals
	Bounded  []BoundedRun `json:"bounded,omitempty"` // bounded stand-ins (labelled, never counted as proved)
	Trusted  []string     `json:"trusted,omitempty"`
	Requires []ReqOb      `json:"require_obligations,omitempty"` // (fn, kind, tag) that must exist
	Notes    string       `json:"notes,omitempty"`
}

type ReqOb struct {
	Fn   string `json:"fn"`
	Kind string `json:"kind"`
	Tag  string `json:"tag,omitempty"`
	Min  int    `json:"min,omitempty"`
}

type BoundedRun struct {
	Name  string `json:"name"`
	Cmd   string `json:"cmd"`
	Bound string `json:"bound"`
	Tier  string `json:"tier,omitempty"` // run only in this tier ("" = both)
}

type KnownFinding struct {
	Property   string `json:"property"`
	Obligation string `json:"obligation"` // obligation name (or prefix ending in '*')
	Case       string `json:"case,omitempty"`
	What       string `json:"what"`
	Status     string `json:"status"` // known | fixed
	Commit     string `json:"commit,omitempty"`
}

type failure struct {
	Name    string
	Kind    string
	Pos     string
	Desc    string
	Status  string
	Output  string
	Unit    string
	Replay  string
	Reason  string
	HasCex  bool
	Summary string
}

func loadProps(verif string) (map[string]*PropSpec, error) {
	data, err := os.ReadFile(filepath.Join(verif, "props.json"))
	if err != nil {
		return nil, err
	}
	m := map[string]*PropSpec{}
	if err := json.Unmarshal(data, &m); err != nil {
		return nil, err
	}
	return m, nil
}

func loadKnown(verif string) []KnownFinding {
	data, err := os.ReadFile(filepath.Join(verif, "known_findings.json"))
	if err != nil {
		return nil
	}
	var out []KnownFinding
	json.Unmarshal(data, &out)
	return out
}

func matchKnown(kf []KnownFinding, prop, name string) *KnownFinding {
	for i := range kf {
		k := &kf[i]
		if k.Property != prop || k.Status != "known" {
			continue
		}
		if k.Obligation == name {
			return k
		}
		if strings.HasSuffix(k.Obligation, "*") && strings.HasPrefix(name, strings.TrimSuffix(k.Obligation, "*")) {
			return k
		}
	}
	return nil
}

func runCheck(repo, verif, prop, tier string, workers int, verbose bool) int {
	t0 := time.Now()
	seed := 0
	if s := os.Getenv("VERIF_SEED"); s != "" {
		seed, _ = strconv.Atoi(s)
	}
	solverSeed = seed
	if t := os.Getenv("VERIF_TIER"); t != "" && tier == "" {
		tier = t
	}
	if tier != "quick" && tier != "thorough" {
		tier = "quick"
	}
	props, err := loadProps(verif)
	if err != nil {
		fmt.Fprintln(os.Stderr, "cannot read props.json:", err)
		return 2
	}
	ps := props[prop]
	if ps == nil {
		fmt.Fprintln(os.Stderr, "unknown property", prop)
		return 2
	}
	known := loadKnown(verif)
	eng, err := loadEngine(repo)
	if err != nil {
		fmt.Fprintln(os.Stderr, "cannot load repository (does it compile with -tags verif?):", err)
		return 2
	}
	eng.specs = loadSpecs(repo, filepath.Join(verif, "contracts-lib"))
	eng.verifDir = verif
	eng.loadHints(filepath.Join(verif, "hints", "houdini.json"))
	os.Setenv("VERIF_REPO", repo)
	timeout := 10
	if tier == "thorough" {
		timeout = 60
	}

	var fails []failure
	var results []*UnitResult
	var all []*Obligation
	for _, e := range eng.specs.Errors {
		fails = append(fails, failure{Name: "contracts/parse", Kind: "contract", Desc: e, Status: "contract file does not parse", Reason: e})
	}
	// ---- Level 1: units
	for _, us := range ps.Units {
		r := eng.runUnit(us)
		r.Obls = filterObls(us, r.Obls)
		results = append(results, r)
		all = append(all, r.Obls...)
		if r.Unsupported != "" {
			fails = append(fails, failure{Name: us.Fn + "/subset", Kind: "subset", Unit: us.Fn, Status: "not generated",
				Desc: "obligations of " + us.Fn + " can no longer be generated", Reason: r.Unsupported})
		}
		for _, n := range r.Notes {
			if strings.HasPrefix(n, "contract error") {
				fails = append(fails, failure{Name: us.Fn + "/contract", Kind: "contract", Unit: us.Fn, Status: "contract does not resolve", Desc: n, Reason: n})
			}
		}
	}
	// ---- tables / layouts / constants
	tobls, tnotes := eng.tableObligations(prop, ps)
	all = append(all, tobls...)
	for _, n := range tnotes {
		fails = append(fails, failure{Name: "tables/" + n, Kind: "table", Status: "not generated", Desc: n, Reason: n})
	}
	// ---- Level 2 lemmas
	lobls, lerrs := eng.lemmaObligations(verif, ps.Lemmas)
	all = append(all, lobls...)
	for _, e := range lerrs {
		fails = append(fails, failure{Name: "lemmas", Kind: "lemma", Status: "not generated", Desc: e, Reason: e})
	}
	discharge(all, timeout, tier == "thorough", workers)

	// ---- required obligations (guards against vacuous success)
	for _, rq := range ps.Requires {
		n := 0
		for _, o := range all {
			if strings.HasPrefix(o.Name, rq.Fn+"/"+rq.Kind) || (strings.Contains(o.Name, "->"+rq.Fn+"/"+rq.Kind)) {
				if rq.Tag == "" || o.hasTag([]string{rq.Tag}) {
					n++
				}
			}
		}
		min := rq.Min
		if min == 0 {
			min = 1
		}
		if n < min {
			fails = append(fails, failure{Name: fmt.Sprintf("%s/%s[%s]/missing", rq.Fn, rq.Kind, rq.Tag), Kind: "missing", Status: "not generated",
				Desc:   fmt.Sprintf("expected at least %d obligation(s) %s/%s[%s], generated %d", min, rq.Fn, rq.Kind, rq.Tag, n),
				Reason: "an obligation that is discharged on the unchanged tree can no longer be generated"})
		}
	}
	infra := 0
	for _, o := range all {
		if o.ok() {
			continue
		}
		if o.Res.Status == "error" {
			infra++
			fmt.Fprintf(os.Stderr, "solver error on %s: %s\n", o.Name, trunc(o.Res.Output, 300))
			continue
		}
		f := failure{Name: o.Name, Kind: o.Kind, Pos: o.Pos, Desc: o.Desc, Status: o.Res.Status, Output: trunc(o.Res.Output, 2000), Unit: o.Unit}
		if o.IsSat {
			f.Reason = "vacuity guard: the assumptions under which this unit is verified are contradictory"
		}
		fails = append(fails, f)
	}
	if infra > 0 {
		fmt.Fprintf(os.Stderr, "%d solver errors: infrastructure failure\n", infra)
		return 2
	}

	// ---- bounded stand-ins
	var bounded []map[string]interface{}
	for _, b := range ps.Bounded {
		if b.Tier != "" && b.Tier != tier {
			continue
		}
		res, ok, out := runBounded(verif, b, seed, tier)
		bounded = append(bounded, res)
		if !ok {
			for _, v := range out {
				fails = append(fails, v)
			}
		}
	}

	// ---- classify failures
	exit := 0
	var knownHit []string
	var violations []failure
	for _, f := range fails {
		if k := matchKnown(known, prop, f.Name); k != nil {
			fmt.Printf("KNOWN-FINDING: property=%s %s (%s)\n", prop, k.What, f.Name)
			knownHit = append(knownHit, f.Name)
			continue
		}
		violations = append(violations, f)
	}
	os.MkdirAll(filepath.Join(verif, "replays", prop), 0o755)
	for i := range violations {
		f := &violations[i]
		var ob *Obligation
		for _, o := range all {
			if o.Name == f.Name {
				ob = o
			}
		}
		path := filepath.Join(verif, "replays", prop, sanitize(f.Name)+".json")
		confirmed := false
		var cex map[string]interface{}
		if ob != nil && !ob.IsSat && f.Kind != "lemma" && f.Kind != "table" {
			cex, confirmed = eng.counterexample(verif, repo, prop, ob)
		}
		if f.Kind == "bounded" && f.Status == "failed" && f.Desc != "" && !strings.HasSuffix(f.Name, "/run") {
			// a bounded stand-in runs the real code: its failing case is a failing input
			// observed on the real code (re-run the stand-in's command to see it again)
			confirmed = true
			cex = map[string]interface{}{"failing_case": f.Desc, "observed_by": "bounded stand-in " + f.Unit + " on the real code of this tree"}
			for _, b := range ps.Bounded {
				if b.Name == f.Unit {
					cex["rerun"] = "cd /verif && " + b.Cmd
				}
			}
		}
		rec := map[string]interface{}{
			"property": prop, "obligation": f.Name, "kind": f.Kind, "location": f.Pos, "clause": f.Desc,
			"solver_status": f.Status, "solver_output": f.Output, "reason": f.Reason, "unit": f.Unit,
			"counterexample": cex, "replayed_on_real_code": confirmed, "tier": tier,
		}
		data, _ := json.MarshalIndent(rec, "", " ")
		os.WriteFile(path, data, 0o644)
		suffix := ""
		if !confirmed {
			suffix = " no-failing-input-found"
		}
		fmt.Printf("VIOLATION property=%s replay=%s obligation=%s%s\n", prop, path, f.Name, suffix)
		exit = 1
	}

	// ---- evidence
	if os.Getenv("GOVC_WRITE_HINTS") != "" && exit == 0 {
		if err := eng.saveHints(filepath.Join(verif, "hints", "houdini.json")); err != nil {
			fmt.Fprintln(os.Stderr, "cannot write hints:", err)
		}
	}
	writeEvidence(verif, prop, tier, seed, ps, results, all, knownHit, violations, bounded, time.Since(t0).Seconds(), eng)
	if verbose {
		fmt.Print(summarize(results))
	}
	nOK := 0
	for _, o := range all {
		if o.ok() {
			nOK++
		}
	}
	fmt.Printf("%s %s: obligations=%d discharged=%d known-findings=%d violations=%d wall=%.1fs\n", prop, tier, len(all), nOK, len(knownHit), len(violations), time.Since(t0).Seconds())
	return exit
}

func writeEvidence(verif, prop, tier string, seed int, ps *PropSpec, results []*UnitResult, all []*Obligation, knownHit []string, violations []failure, bounded []map[string]interface{}, wall float64, eng *Engine) {
	byKind := map[string]int{}
	bySolver := map[string]int{}
	solverTime := 0.0
	discharged := 0
	claimed := 0
	knownSet := map[string]bool{}
	for _, k := range knownHit {
		knownSet[k] = true
	}
	var samples []interface{}
	var slow []interface{}
	reach := 0
	retSites, retUnreach := 0, []string{}
	for _, o := range all {
		solverTime += o.Res.Time
		if o.Info {
			retSites++
			if o.Res.Status == "unsat" {
				retUnreach = append(retUnreach, o.Unit+" "+o.Pos)
			}
			continue
		}
		if o.IsSat {
			reach++
			continue
		}
		if knownSet[o.Name] {
			continue
		}
		claimed++
		byKind[o.Kind]++
		if o.ok() {
			discharged++
			bySolver[o.Res.Solver]++
		}
		if o.Res.Time > 3 {
			slow = append(slow, map[string]interface{}{"obligation": o.Name, "time_s": o.Res.Time})
		}
	}
	// three sample obligations in full
	picked := 0
	for _, o := range all {
		if o.IsSat || picked >= 3 {
			continue
		}
		if o.Kind == "post" || o.Kind == "bounds" || o.Kind == "table" || o.Kind == "lemma" || picked == 0 {
			samples = append(samples, map[string]interface{}{
				"obligation": o.Name, "kind": o.Kind, "location": o.Pos, "clause": o.Desc,
				"goal_smt": trunc(o.Goal, 600), "context_lines": o.Prefix, "status": o.Res.Status, "solver": o.Res.Solver, "time_s": o.Res.Time,
			})
			picked++
		}
	}
	var fnsContract, fnsInlined, fnsOutside, assumed, loops []string
	seenA := map[string]bool{}
	seenI := map[string]bool{}
	for _, r := range results {
		fnsContract = append(fnsContract, r.Spec.Fn)
		loops = append(loops, r.Loops...)
		if r.Unsupported != "" {
			fnsOutside = append(fnsOutside, r.Spec.Fn+": "+trunc(r.Unsupported, 200))
		}
		for _, a := range r.Assumed {
			if !seenA[a] {
				seenA[a] = true
				assumed = append(assumed, a)
			}
		}
		for _, a := range r.Inlined {
			if !seenI[a] {
				seenI[a] = true
				fnsInlined = append(fnsInlined, a)
			}
		}
		for _, a := range r.Modular {
			if !seenA["contract of callee: "+a] {
				seenA["contract of callee: "+a] = true
				assumed = append(assumed, "contract of callee (verified as its own unit where listed): "+a)
			}
		}
	}
	sort.Strings(assumed)
	sort.Strings(fnsInlined)
	trusted := append([]string{
		"go/types + go/ssa (x/tools v0.29.0) represent the compiled program; layout = types.SizesFor(gc, amd64)",
		"the VC generator govc (semantics in DESIGN.md §2.4), exercised by the must-fail corpus",
		"unsat answers of z3 5.1.0 / cvc5 1.0 / z3 4.8.12",
		"integers: exact machine semantics (wrap-around modelled); lengths of strings/slices assumed <= 2^62",
		"goroutine interleavings, allocation failure and GC are not modelled",
	}, ps.Trusted...)
	ev := map[string]interface{}{
		"property_id": prop, "tier": tier, "seed": seed, "level": "proof",
		"coverage": map[string]interface{}{
			"obligations": claimed, "discharged": discharged,
			"checker_cmd":  fmt.Sprintf("./check %s %s", prop, tier),
			"trusted_base": trusted,
			"samples":      samples,
			"by_kind":      byKind, "by_solver": bySolver, "solver_time_s": solverTime,
			"functions_under_contract": fnsContract, "functions_inlined": fnsInlined, "functions_outside_subset": fnsOutside,
			"loops": loops, "vacuity_guards": reach, "return_sites": retSites, "return_sites_unreachable": retUnreach, "known_findings_hit": knownHit, "bounded": bounded,
			"slow_obligations": slow, "houdini_side_queries": eng.sideQueries,
			"contract_files": eng.specs.Files,
			"explanation":    "obligations are generated from /repo's current SSA and the //@ contracts; discharged = solver answered unsat for the negated obligation; obligations listed under known_findings_hit are excluded from both counts",
		},
		"assumptions": assumed,
		"wall_s":      wall,
		"violations":  len(violations),
	}
	os.MkdirAll(filepath.Join(verif, "evidence"), 0o755)
	data, _ := json.MarshalIndent(ev, "", " ")
	os.WriteFile(filepath.Join(verif, "evidence", prop+".json"), data, 0o644)
}
