package main

func runCheck(repo, verif, prop, tier string, workers int, verbose bool) int {
	return 2
}
