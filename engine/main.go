package main

import (
	"flag"
	"fmt"
	"os"
	"runtime/pprof"
	"sort"
	"strings"

	"golang.org/x/tools/go/ssa"
)

func usage() {
	fmt.Fprintln(os.Stderr, `usage: govc <command> [flags]
  try   -fn <key> [-mode sweep|contract] [-v]    verify one function, print obligations
  dump  -fn <key>                                 print SSA
  list                                            list module functions
  externals                                       list callees outside the module
  check -prop <id> -tier quick|thorough           run a property check (see props.json)`)
	os.Exit(2)
}

func main() {
	if len(os.Args) < 2 {
		usage()
	}
	cmd := os.Args[1]
	fs := flag.NewFlagSet(cmd, flag.ExitOnError)
	repo := fs.String("repo", "/repo", "repository")
	verif := fs.String("verif", "/verif", "verification directory")
	fnKey := fs.String("fn", "", "function key")
	mode := fs.String("mode", "sweep", "sweep|contract")
	verbose := fs.Bool("v", false, "verbose")
	keep := fs.Bool("keep", false, "keep scratch files")
	timeout := fs.Int("timeout", 10, "per-query timeout (s)")
	prop := fs.String("prop", "", "property id")
	tier := fs.String("tier", "quick", "quick|thorough")
	locks := fs.Bool("locks", false, "lock discipline obligations")
	interfere := fs.Bool("interfere", false, "model interference on atomic_only locations")
	inlineFlag := fs.String("inline", "", "comma-separated function keys to inline although they have a contract")
	workers := fs.Int("j", 10, "parallel obligations")
	cpuprof := fs.String("cpuprofile", "", "write cpu profile")
	fs.Parse(os.Args[2:])
	if *cpuprof != "" {
		f, _ := os.Create(*cpuprof)
		pprof.StartCPUProfile(f)
		defer pprof.StopCPUProfile()
	}
	keepScratch = *keep
	defer cleanupScratch()

	switch cmd {
	case "check":
		os.Exit(runCheck(*repo, *verif, *prop, *tier, *workers, *verbose))
	}

	eng, err := loadEngine(*repo)
	if err != nil {
		fmt.Fprintln(os.Stderr, "load failed:", err)
		os.Exit(2)
	}
	eng.specs = loadSpecs(*repo, *verif+"/contracts-lib")
	eng.loadHints(*verif + "/hints/houdini.json")
	for _, e := range eng.specs.Errors {
		fmt.Fprintln(os.Stderr, "spec error:", e)
	}
	switch cmd {
	case "list":
		for _, f := range eng.moduleFunctions() {
			fmt.Println(shortFn(f))
		}
	case "dump":
		f := eng.fnByKey[*fnKey]
		if f == nil {
			fmt.Fprintln(os.Stderr, "not found")
			os.Exit(2)
		}
		f.WriteTo(os.Stdout)
	case "externals":
		seen := map[string][]string{}
		for _, f := range eng.moduleFunctions() {
			if strings.Contains(f.String(), "/cmd/") || strings.HasSuffix(f.Name(), "init") {
				continue
			}
			for _, b := range f.Blocks {
				for _, ins := range b.Instrs {
					c, ok := ins.(ssa.CallInstruction)
					if !ok {
						continue
					}
					if c.Common().IsInvoke() {
						n := "invoke " + ifaceName(c.Common().Value.Type()) + "." + c.Common().Method.Name()
						seen[n] = append(seen[n], shortFn(f))
						continue
					}
					if cal := c.Common().StaticCallee(); cal != nil {
						ex := &Exec{eng: eng}
						if !ex.inModule(cal) {
							seen[cal.String()] = append(seen[cal.String()], shortFn(f))
						}
					}
				}
			}
		}
		var ks []string
		for k := range seen {
			ks = append(ks, k)
		}
		sort.Strings(ks)
		for _, k := range ks {
			mark := " "
			if _, ok := intrinsics[k]; ok {
				mark = "*"
			}
			fmt.Printf("%s %-60s %d  e.g. %s\n", mark, k, len(seen[k]), seen[k][0])
		}
	case "try":
		us := UnitSpec{Fn: *fnKey, Mode: *mode, Locks: *locks, Interfere: *interfere}
		if *interfere {
			us.Tags = []string{"C11"}
		}
		if *inlineFlag != "" {
			us.Inline = strings.Split(*inlineFlag, ",")
		}
		r := eng.runUnit(us)
		discharge(r.Obls, *timeout, false, *workers)
		for _, o := range r.Obls {
			status := "ok  "
			if !o.ok() {
				status = "FAIL"
			}
			if o.Info && o.Res.Status == "unsat" {
				fmt.Printf("note: UNREACHABLE under the assumptions: %s %s (postconditions proved there are vacuous)\n", o.Unit, o.Pos)
			}
			if *verbose || !o.ok() {
				fmt.Printf("%s %-9s %-70s %s [%s %s %.2fs] %s\n", status, o.Kind, o.Name, o.Pos, o.Res.Status, o.Res.Solver, o.Res.Time, trunc(o.Desc, 100))
			}
		}
		for _, n := range r.Notes {
			fmt.Println("note:", n)
		}
		fmt.Print(summarize([]*UnitResult{r}))
		if *verbose {
			fmt.Println("assumed:", r.Assumed)
			fmt.Println("inlined:", r.Inlined)
			fmt.Println("script lines:", r.ScriptLines, "side queries:", eng.sideQueries)
		}
	default:
		usage()
	}
}
