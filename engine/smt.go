package main

// SMT-LIB term construction (terms are plain strings) and the script that a
// function's verification conditions are accumulated in.

import (
	"runtime/debug"
	"os"
	"fmt"
	"math/big"
	"sort"
	"strings"
)

const (
	sInt  = "Int"
	sBool = "Bool"
	sStr  = "Str"
)

func sArr(idx, elem string) string { return "(Array " + idx + " " + elem + ")" }

func app(op string, args ...string) string {
	return "(" + op + " " + strings.Join(args, " ") + ")"
}

func num(i int64) string {
	if i < 0 {
		return fmt.Sprintf("(- %d)", -i)
	}
	return fmt.Sprintf("%d", i)
}

func numBig(b *big.Int) string {
	if b.Sign() < 0 {
		return "(- " + new(big.Int).Neg(b).String() + ")"
	}
	return b.String()
}

func pow2(n uint) *big.Int { return new(big.Int).Lsh(big.NewInt(1), n) }

func isNumLit(t string) (*big.Int, bool) {
	s := t
	neg := false
	if strings.HasPrefix(s, "(- ") && strings.HasSuffix(s, ")") {
		s = s[3 : len(s)-1]
		neg = true
	}
	if s == "" {
		return nil, false
	}
	for _, c := range s {
		if c < '0' || c > '9' {
			return nil, false
		}
	}
	b, ok := new(big.Int).SetString(s, 10)
	if !ok {
		return nil, false
	}
	if neg {
		b.Neg(b)
	}
	return b, true
}

func mkNot(a string) string {
	switch a {
	case "true":
		return "false"
	case "false":
		return "true"
	}
	if strings.HasPrefix(a, "(not ") {
		return a[5 : len(a)-1]
	}
	return "(not " + a + ")"
}

func mkAnd(args ...string) string {
	var out []string
	for _, a := range args {
		if a == "true" || a == "" {
			continue
		}
		if a == "false" {
			return "false"
		}
		out = append(out, a)
	}
	switch len(out) {
	case 0:
		return "true"
	case 1:
		return out[0]
	}
	return "(and " + strings.Join(out, " ") + ")"
}

func mkOr(args ...string) string {
	var out []string
	for _, a := range args {
		if a == "false" || a == "" {
			continue
		}
		if a == "true" {
			return "true"
		}
		out = append(out, a)
	}
	switch len(out) {
	case 0:
		return "false"
	case 1:
		return out[0]
	}
	return "(or " + strings.Join(out, " ") + ")"
}

func mkImp(a, b string) string {
	if a == "true" {
		return b
	}
	if a == "false" || b == "true" {
		return "true"
	}
	if b == "false" {
		return mkNot(a)
	}
	return "(=> " + a + " " + b + ")"
}

func mkIte(c, a, b string) string {
	if c == "true" {
		return a
	}
	if c == "false" {
		return b
	}
	if a == b {
		return a
	}
	return "(ite " + c + " " + a + " " + b + ")"
}

func mkEq(a, b string) string {
	if a == b {
		return "true"
	}
	if x, ok := isNumLit(a); ok {
		if y, ok2 := isNumLit(b); ok2 {
			if x.Cmp(y) == 0 {
				return "true"
			}
			return "false"
		}
	}
	if (a == "true" && b == "false") || (a == "false" && b == "true") {
		return "false"
	}
	if a == "true" {
		return b
	}
	if b == "true" {
		return a
	}
	return "(= " + a + " " + b + ")"
}

func mkAdd(a, b string) string {
	x, ok1 := isNumLit(a)
	y, ok2 := isNumLit(b)
	if ok1 && ok2 {
		return numBig(new(big.Int).Add(x, y))
	}
	if ok1 && x.Sign() == 0 {
		return b
	}
	if ok2 && y.Sign() == 0 {
		return a
	}
	return "(+ " + a + " " + b + ")"
}

func mkSub(a, b string) string {
	x, ok1 := isNumLit(a)
	y, ok2 := isNumLit(b)
	if ok1 && ok2 {
		return numBig(new(big.Int).Sub(x, y))
	}
	if ok2 && y.Sign() == 0 {
		return a
	}
	return "(- " + a + " " + b + ")"
}

func mkMul(a, b string) string {
	x, ok1 := isNumLit(a)
	y, ok2 := isNumLit(b)
	if ok1 && ok2 {
		return numBig(new(big.Int).Mul(x, y))
	}
	if ok1 && x.Cmp(big.NewInt(1)) == 0 {
		return b
	}
	if ok2 && y.Cmp(big.NewInt(1)) == 0 {
		return a
	}
	return "(* " + a + " " + b + ")"
}

func mkCmp(op, a, b string) string {
	x, ok1 := isNumLit(a)
	y, ok2 := isNumLit(b)
	if ok1 && ok2 {
		c := x.Cmp(y)
		var r bool
		switch op {
		case "<":
			r = c < 0
		case "<=":
			r = c <= 0
		case ">":
			r = c > 0
		case ">=":
			r = c >= 0
		}
		if r {
			return "true"
		}
		return "false"
	}
	return "(" + op + " " + a + " " + b + ")"
}

func mkSelect(a, i string) string { return "(select " + a + " " + i + ")" }
func mkStore(a, i, v string) string {
	return "(store " + a + " " + i + " " + v + ")"
}

// euclidean div/mod of SMT-LIB agree with Go for non-negative operands only;
// callers handle signs.
func mkDiv(a, b string) string {
	x, ok1 := isNumLit(a)
	y, ok2 := isNumLit(b)
	if ok1 && ok2 && y.Sign() > 0 && x.Sign() >= 0 {
		return numBig(new(big.Int).Div(x, y))
	}
	return "(div " + a + " " + b + ")"
}

func mkMod(a, b string) string {
	x, ok1 := isNumLit(a)
	y, ok2 := isNumLit(b)
	if ok1 && ok2 && y.Sign() > 0 && x.Sign() >= 0 {
		return numBig(new(big.Int).Mod(x, y))
	}
	return "(mod " + a + " " + b + ")"
}

// ---------------------------------------------------------------------------

// Script is an append-only list of SMT-LIB commands. An obligation refers to
// a prefix of it.
type Script struct {
	lines   []string
	decls   map[string]string // name -> sort (constants) or full decl (functions)
	counter int
	strLits map[string]string // literal -> const name
	strList []string
	defOf   map[string]string // defined name -> defining term
	pure    int               // >0: inside contract evaluation (no definitions, no bound-variable asserts)
	guard   string            // reachability condition of the instruction being executed: every assumption made while executing it holds only on paths that reach it
}

func newScript() *Script {
	s := &Script{decls: map[string]string{}, strLits: map[string]string{}, defOf: map[string]string{}}
	return s
}

func (s *Script) emit(line string) { s.lines = append(s.lines, line) }

func (s *Script) pos() int { return len(s.lines) }

func sanitize(hint string) string {
	var b strings.Builder
	for _, c := range hint {
		switch {
		case c >= 'a' && c <= 'z', c >= 'A' && c <= 'Z', c >= '0' && c <= '9', c == '_':
			b.WriteRune(c)
		default:
			b.WriteByte('_')
		}
	}
	return b.String()
}

// fresh declares a new constant.
func (s *Script) fresh(hint, sort string) string {
	s.counter++
	name := fmt.Sprintf("v%d_%s", s.counter, sanitize(hint))
	if len(name) > 60 {
		name = name[:60]
	}
	s.decls[name] = sort
	s.emit("(declare-fun " + name + " () " + sort + ")")
	return name
}

// global declares a named constant once.
func (s *Script) global(name, sort string) string {
	if _, ok := s.decls[name]; !ok {
		s.decls[name] = sort
		s.emit("(declare-fun " + name + " () " + sort + ")")
	}
	return name
}

// fun declares an uninterpreted function once.
func (s *Script) fun(name string, args []string, ret string) string {
	if _, ok := s.decls[name]; !ok {
		s.decls[name] = "fun"
		s.emit("(declare-fun " + name + " (" + strings.Join(args, " ") + ") " + ret + ")")
	}
	return name
}

// axiom asserts a fact that does not depend on the program point (definitions
// of lazily declared symbols, facts about literals and globals).
func (s *Script) axiom(t string) {
	if t == "true" {
		return
	}
	s.emit("(assert " + t + ")")
}

func (s *Script) assert(t string) {
	if t == "true" {
		return
	}
	if s.pure > 0 && strings.Contains(t, "qv_") {
		return // mentions a bound variable of a contract quantifier
	}
	if s.guard != "" && s.guard != "true" {
		t = mkImp(s.guard, t)
		if t == "true" {
			return
		}
	}
	s.emit("(assert " + t + ")")
}

// define introduces a named abbreviation for term t (keeps terms small).
func (s *Script) define(hint, sort, t string) string {
	if _, ok := isNumLit(t); ok {
		return t
	}
	if t == "true" || t == "false" {
		return t
	}
	if !strings.HasPrefix(t, "(") {
		return t // already atomic
	}
	if s.pure > 0 {
		return t
	}
	if tr := os.Getenv("GOVC_TRACE_DEF"); tr != "" && strings.HasSuffix(fmt.Sprintf("v%d_%s", s.counter+1, sanitize(hint)), tr) {
		fmt.Fprintf(os.Stderr, "TRACE define %s script=%p\n%s\n", tr, s, debug.Stack())
	}
	n := s.fresh(hint, sort)
	s.defOf[n] = t
	s.emit("(assert " + mkEq(n, t) + ")") // definitional: unconditional
	return n
}

func smtStringLit(b string) string {
	var sb strings.Builder
	for i := 0; i < len(b); i++ {
		fmt.Fprintf(&sb, "%02x", b[i])
	}
	return sb.String()
}

// prelude is emitted at the start of every query.
func prelude(logic string) []string {
	return []string{
		"(set-option :produce-models true)",
		"(set-logic " + logic + ")",
		"(declare-sort Str 0)",
		"(declare-fun slen (Str) Int)",
		"(declare-fun sat (Str Int) Int)",
		"(declare-fun ssub (Str Int Int) Str)",
		"(declare-fun scat (Str Str) Str)",
		"(declare-fun sfrom ((Array Int Int) Int Int) Str)", // string built from bytes arr[off:off+len]
		"(assert (forall ((s Str)) (! (and (>= (slen s) 0) (<= (slen s) 4611686018427387904)) :pattern ((slen s)))))",
		"(assert (forall ((s Str) (i Int)) (! (and (<= 0 (sat s i)) (< (sat s i) 256)) :pattern ((sat s i)))))",
		// substring
		"(assert (forall ((s Str) (a Int) (b Int)) (! (=> (and (<= 0 a) (<= a b) (<= b (slen s))) (= (slen (ssub s a b)) (- b a))) :pattern ((ssub s a b)))))",
		"(assert (forall ((s Str) (a Int) (b Int) (i Int)) (! (=> (and (<= 0 a) (<= a b) (<= b (slen s)) (<= 0 i) (< i (- b a))) (= (sat (ssub s a b) i) (sat s (+ a i)))) :pattern ((sat (ssub s a b) i)))))",
		"(assert (forall ((s Str)) (! (= (ssub s 0 (slen s)) s) :pattern ((ssub s 0 (slen s))))))",
		// concatenation
		"(assert (forall ((s Str) (t Str)) (! (= (slen (scat s t)) (+ (slen s) (slen t))) :pattern ((scat s t)))))",
		"(assert (forall ((s Str) (t Str) (i Int)) (! (=> (and (<= 0 i) (< i (+ (slen s) (slen t)))) (= (sat (scat s t) i) (ite (< i (slen s)) (sat s i) (sat t (- i (slen s)))))) :pattern ((sat (scat s t) i)))))",
		// substring of a concatenation / of a substring (rewrite lemmas, consequences of extensionality)
		"(assert (forall ((s Str) (t Str) (a Int) (b Int)) (! (=> (and (<= 0 a) (<= a b) (<= b (slen s))) (= (ssub (scat s t) a b) (ssub s a b))) :pattern ((ssub (scat s t) a b)))))",
		"(assert (forall ((s Str) (t Str) (a Int) (b Int)) (! (=> (and (<= (slen s) a) (<= a b) (<= b (+ (slen s) (slen t)))) (= (ssub (scat s t) a b) (ssub t (- a (slen s)) (- b (slen s))))) :pattern ((ssub (scat s t) a b)))))",
		"(assert (forall ((s Str) (a Int) (b Int) (c Int) (d Int)) (! (=> (and (<= 0 a) (<= a b) (<= b (slen s)) (<= 0 c) (<= c d) (<= d (- b a))) (= (ssub (ssub s a b) c d) (ssub s (+ a c) (+ a d)))) :pattern ((ssub (ssub s a b) c d)))))",
		// left cancellation: p++a == p++b ==> a == b
		"(assert (forall ((p Str) (a Str) (b Str)) (! (=> (= (scat p a) (scat p b)) (= a b)) :pattern ((scat p a) (scat p b)))))",
		// bytes -> string
		"(assert (forall ((a (Array Int Int)) (o Int) (n Int)) (! (=> (>= n 0) (= (slen (sfrom a o n)) n)) :pattern ((sfrom a o n)))))",
		"(assert (forall ((a (Array Int Int)) (o Int) (n Int) (i Int)) (! (=> (and (<= 0 i) (< i n) (<= 0 (select a (+ o i))) (< (select a (+ o i)) 256)) (= (sat (sfrom a o n) i) (select a (+ o i)))) :pattern ((sat (sfrom a o n) i)))))",
	}
}

// strLit returns the constant for a Go string literal, declaring it and its
// axioms (length, bytes, distinctness from other literals) on first use.
func (s *Script) strLit(lit string) string {
	if lit == "" {
		return "STR_EMPTY"
	}
	if n, ok := s.strLits[lit]; ok {
		return n
	}
	n := fmt.Sprintf("lit%d_%s", len(s.strLits), sanitize(trunc(lit, 16)))
	s.strLits[lit] = n
	s.strList = append(s.strList, lit)
	s.emit("(declare-fun " + n + " () Str)")
	s.axiom(mkEq("(slen "+n+")", num(int64(len(lit)))))
	if len(lit) <= 64 {
		for i := 0; i < len(lit); i++ {
			s.axiom(mkEq(fmt.Sprintf("(sat %s %d)", n, i), num(int64(lit[i]))))
		}
	}
	// distinct from the earlier literals
	for _, other := range s.strList[:len(s.strList)-1] {
		s.axiom("(not (= " + n + " " + s.strLits[other] + "))")
	}
	return n
}

// strEqLit returns a term equivalent to (s == lit) that also exposes the
// extensional reading for short literals: equal iff same length and bytes.
func (s *Script) strEqLit(t, lit string) string {
	c := s.strLit(lit)
	if len(lit) > 24 {
		return mkEq(t, c)
	}
	if s.pure > 0 && strings.Contains(t, "qv_") {
		conj := []string{mkEq("(slen "+t+")", num(int64(len(lit))))}
		for i := 0; i < len(lit); i++ {
			conj = append(conj, mkEq(fmt.Sprintf("(sat %s %d)", t, i), num(int64(lit[i]))))
		}
		return mkAnd(conj...)
	}
	// assert the instance of extensionality for this pair
	conj := []string{mkEq("(slen "+t+")", num(int64(len(lit))))}
	for i := 0; i < len(lit); i++ {
		conj = append(conj, mkEq(fmt.Sprintf("(sat %s %d)", t, i), num(int64(lit[i]))))
	}
	s.axiom(mkEq(mkEq(t, c), mkAnd(conj...))) // instance of extensionality: holds everywhere
	return mkEq(t, c)
}

func trunc(s string, n int) string {
	if len(s) > n {
		return s[:n]
	}
	return s
}

func sortedKeys[V any](m map[string]V) []string {
	ks := make([]string, 0, len(m))
	for k := range m {
		ks = append(ks, k)
	}
	sort.Strings(ks)
	return ks
}

// idxAdd builds off+idx for array indexing without folding a zero index away,
// so that the term keeps the shape quantifier triggers are looking for.
func idxAdd(off, idx string) string {
	if _, ok := isNumLit(off); ok {
		if _, ok2 := isNumLit(idx); ok2 {
			return mkAdd(off, idx)
		}
	}
	return "(+ " + off + " " + idx + ")"
}
