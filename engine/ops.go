package main

// Instruction semantics: arithmetic, conversions, indexing, slicing, maps,
// interfaces, iteration.

import (
	"fmt"
	"go/constant"
	"go/token"
	"go/types"
	"math/big"

	"golang.org/x/tools/go/ssa"
)

func constBig(c *ssa.Const) (*big.Int, bool) {
	v := constant.ToInt(c.Value)
	if v.Kind() != constant.Int {
		return nil, false
	}
	if i, ok := constant.Int64Val(v); ok {
		return big.NewInt(i), true
	}
	b, ok := new(big.Int).SetString(v.ExactString(), 10)
	return b, ok
}

func constString(c *ssa.Const) string { return constant.StringVal(c.Value) }

// wrapArith reduces a mathematical result into the range of integer type t,
// assuming it is off by at most one modulus (add/sub); otherwise use wrapMod.
func (ex *Exec) wrapArith(t types.Type, term string) string {
	bits, signed, ok := intInfo(t)
	if !ok {
		return term
	}
	if b, isLit := isNumLit(term); isLit {
		return numBig(wrapBig(b, bits, signed))
	}
	m := numBig(pow2(bits))
	r := ex.sc.define("ar", sInt, term)
	if signed {
		max := numBig(new(big.Int).Sub(pow2(bits-1), one))
		min := numBig(new(big.Int).Neg(pow2(bits - 1)))
		return mkIte(mkCmp(">", r, max), mkSub(r, m), mkIte(mkCmp("<", r, min), mkAdd(r, m), r))
	}
	return mkIte(mkCmp(">=", r, m), mkSub(r, m), mkIte(mkCmp("<", r, "0"), mkAdd(r, m), r))
}

func wrapBig(b *big.Int, bits uint, signed bool) *big.Int {
	m := pow2(bits)
	r := new(big.Int).Mod(b, m)
	if signed && r.Cmp(pow2(bits-1)) >= 0 {
		r.Sub(r, m)
	}
	return r
}

// wrapMod reduces an arbitrary mathematical integer into t's range.
func (ex *Exec) wrapMod(t types.Type, term string) string {
	bits, signed, ok := intInfo(t)
	if !ok {
		return term
	}
	if b, isLit := isNumLit(term); isLit {
		return numBig(wrapBig(b, bits, signed))
	}
	m := numBig(pow2(bits))
	r := ex.sc.define("wr", sInt, term)
	if signed {
		h := numBig(pow2(bits - 1))
		max := numBig(new(big.Int).Sub(pow2(bits-1), one))
		return mkIte(mkAnd(mkCmp("<=", "(- "+h+")", r), mkCmp("<=", r, max)), r, mkSub(mkMod(mkAdd(r, h), m), h))
	}
	return mkIte(mkAnd(mkCmp("<=", "0", r), mkCmp("<", r, m)), r, mkMod(r, m))
}

// toUnsigned gives the two's complement unsigned reading of a value of type t.
func (ex *Exec) toUnsigned(t types.Type, term string) string {
	bits, signed, _ := intInfo(t)
	if !signed {
		return term
	}
	if b, ok := isNumLit(term); ok {
		return numBig(wrapBig(b, bits, false))
	}
	return mkIte(mkCmp("<", term, "0"), mkAdd(term, numBig(pow2(bits))), term)
}

func (ex *Exec) fromUnsigned(t types.Type, term string) string {
	bits, signed, _ := intInfo(t)
	if !signed {
		return term
	}
	if b, ok := isNumLit(term); ok {
		return numBig(wrapBig(b, bits, true))
	}
	return mkIte(mkCmp(">=", term, numBig(pow2(bits-1))), mkSub(term, numBig(pow2(bits))), term)
}

// andConst computes (u & c) for non-negative u and constant c >= 0 exactly.
func andConst(u string, c *big.Int, bits uint) string {
	if c.Sign() == 0 {
		return "0"
	}
	full := new(big.Int).Sub(pow2(bits), one)
	if c.Cmp(full) == 0 {
		return u
	}
	var parts []string
	i := 0
	n := c.BitLen()
	for i < n {
		if c.Bit(i) == 0 {
			i++
			continue
		}
		j := i
		for j < n && c.Bit(j) == 1 {
			j++
		}
		// run [i, j)
		t := u
		if i > 0 {
			t = mkDiv(t, numBig(pow2(uint(i))))
		}
		if uint(j) < bits {
			t = mkMod(t, numBig(pow2(uint(j-i))))
		}
		if i > 0 {
			t = mkMul(t, numBig(pow2(uint(i))))
		}
		parts = append(parts, t)
		i = j
	}
	out := parts[0]
	for _, p := range parts[1:] {
		out = mkAdd(out, p)
	}
	return out
}

func (ex *Exec) bitUF(op string, bits uint) string {
	name := fmt.Sprintf("bv%s_%d", op, bits)
	if _, ok := ex.sc.decls[name]; !ok {
		ex.sc.fun(name, []string{sInt, sInt}, sInt)
		hi := numBig(pow2(bits))
		ex.sc.axiom(fmt.Sprintf("(forall ((a Int) (b Int)) (! (and (<= 0 (%s a b)) (< (%s a b) %s)) :pattern ((%s a b))))", name, name, hi, name))
		switch op {
		case "and":
			ex.sc.axiom(fmt.Sprintf("(forall ((a Int) (b Int)) (! (=> (and (>= a 0) (>= b 0)) (and (<= (%s a b) a) (<= (%s a b) b))) :pattern ((%s a b))))", name, name, name))
			// disjoint bit ranges: a multiple of 2^k and a number below 2^k have no common bit
			// (lemma and_disjoint_k in lemmas/bitops.smt2, proved over bit-vectors)
			for _, k := range []int{4, 8, 16} {
				m := numBig(pow2(uint(k)))
				ex.sc.axiom(fmt.Sprintf("(forall ((a Int) (b Int)) (! (=> (and (>= a 0) (= (mod a %s) 0) (<= 0 b) (< b %s)) (and (= (%s a b) 0) (= (%s b a) 0))) :pattern ((%s a b))))", m, m, name, name, name))
			}
		case "or":
			ex.sc.axiom(fmt.Sprintf("(forall ((a Int) (b Int)) (! (=> (and (>= a 0) (>= b 0)) (and (>= (%s a b) a) (>= (%s a b) b) (<= (%s a b) (+ a b)))) :pattern ((%s a b))))", name, name, name, name))
		}
	}
	return name
}

func (ex *Exec) execBinOp(fr *Frame, st *State, reach string, x *ssa.BinOp) Val {
	a := ex.get(fr, x.X)
	b := ex.get(fr, x.Y)
	t := x.Type()
	xt := x.X.Type()
	switch x.Op {
	case token.EQL, token.NEQ:
		eq := ex.valEq(a, b, x.X, x.Y)
		if x.Op == token.NEQ {
			eq = mkNot(eq)
		}
		return scalar(t, eq)
	case token.LSS, token.LEQ, token.GTR, token.GEQ:
		op := map[token.Token]string{token.LSS: "<", token.LEQ: "<=", token.GTR: ">", token.GEQ: ">="}[x.Op]
		if isStringType(xt) {
			f := ex.sc.fun("str_lt", []string{sStr, sStr}, sBool)
			_ = f
			lt := func(p, q string) string { return app("str_lt", p, q) }
			switch x.Op {
			case token.LSS:
				return scalar(t, lt(a.term(), b.term()))
			case token.GTR:
				return scalar(t, lt(b.term(), a.term()))
			case token.LEQ:
				return scalar(t, mkNot(lt(b.term(), a.term())))
			default:
				return scalar(t, mkNot(lt(a.term(), b.term())))
			}
		}
		return scalar(t, mkCmp(op, a.term(), b.term()))
	}
	if isStringType(t) {
		if x.Op == token.ADD {
			return scalar(t, ex.strCat(a.term(), b.term()))
		}
		panic(unsupported("string operator " + x.Op.String()))
	}
	bits, signed, ok := intInfo(t)
	if !ok {
		if bt, isB := t.Underlying().(*types.Basic); isB && bt.Info()&types.IsFloat != 0 {
			return scalar(t, ex.sc.fresh("float", "Real"))
		}
		if bt, isB := t.Underlying().(*types.Basic); isB && bt.Info()&types.IsBoolean != 0 {
			switch x.Op {
			case token.AND, token.LAND:
				return scalar(t, mkAnd(a.term(), b.term()))
			case token.OR, token.LOR:
				return scalar(t, mkOr(a.term(), b.term()))
			}
		}
		panic(unsupported(fmt.Sprintf("binary operator %s on %v", x.Op, t)))
	}
	at, bt := a.term(), b.term()
	switch x.Op {
	case token.ADD:
		return scalar(t, ex.wrapArith(t, mkAdd(at, bt)))
	case token.SUB:
		return scalar(t, ex.wrapArith(t, mkSub(at, bt)))
	case token.MUL:
		return scalar(t, ex.wrapMod2(t, mkMul(at, bt), at, bt))
	case token.QUO, token.REM:
		ex.oblige(fr, "div", nil, x.Pos(), "integer division by zero", reach, mkNot(mkEq(bt, "0")))
		var q string
		if !signed {
			q = mkDiv(at, bt)
		} else if bl, isLit := isNumLit(bt); isLit && bl.Sign() > 0 {
			q = mkIte(mkCmp(">=", at, "0"), mkDiv(at, bt), mkSub("0", mkDiv(mkSub("0", at), bt)))
		} else {
			// truncated division from euclidean division
			absA := mkIte(mkCmp(">=", at, "0"), at, mkSub("0", at))
			absB := mkIte(mkCmp(">=", bt, "0"), bt, mkSub("0", bt))
			qq := mkDiv(absA, absB)
			same := mkEq(mkCmp(">=", at, "0"), mkCmp(">=", bt, "0"))
			q = ex.wrapArith(t, mkIte(same, qq, mkSub("0", qq)))
		}
		if x.Op == token.QUO {
			return scalar(t, q)
		}
		qn := ex.sc.define("q", sInt, q)
		return scalar(t, mkSub(at, mkMul(bt, qn)))
	case token.AND, token.OR, token.XOR, token.AND_NOT:
		ua, ub := ex.toUnsigned(t, at), ex.toUnsigned(t, bt)
		var and string
		if c, isLit := isNumLit(ub); isLit {
			and = andConst(ex.sc.define("u", sInt, ua), c, bits)
		} else if c, isLit := isNumLit(ua); isLit {
			and = andConst(ex.sc.define("u", sInt, ub), c, bits)
		} else {
			and = app(ex.bitUF("and", bits), ua, ub)
			if x.Op == token.OR {
				// keep OR as its own symbol with the relation to AND
				or := app(ex.bitUF("or", bits), ua, ub)
				ex.sc.assert(mkEq(or, mkSub(mkAdd(ua, ub), and)))
				return scalar(t, ex.fromUnsigned(t, or))
			}
		}
		var r string
		switch x.Op {
		case token.AND:
			r = and
		case token.OR:
			r = mkSub(mkAdd(ua, ub), and)
		case token.XOR:
			r = mkSub(mkAdd(ua, ub), mkMul("2", and))
		case token.AND_NOT:
			r = mkSub(ua, and)
		}
		return scalar(t, ex.fromUnsigned(t, r))
	case token.SHL, token.SHR:
		// shift count: negative count panics for signed count types
		if _, csigned, _ := intInfo(x.Y.Type()); csigned {
			ex.oblige(fr, "shift", nil, x.Pos(), "negative shift amount", reach, mkCmp(">=", bt, "0"))
		}
		if c, isLit := isNumLit(bt); isLit && c.IsInt64() && c.Int64() >= 0 {
			k := uint(c.Int64())
			if x.Op == token.SHL {
				if k >= bits {
					return scalar(t, "0")
				}
				return scalar(t, ex.wrapMod(t, mkMul(at, numBig(pow2(k)))))
			}
			if k >= bits {
				if signed {
					return scalar(t, mkIte(mkCmp("<", at, "0"), "(- 1)", "0"))
				}
				return scalar(t, "0")
			}
			return scalar(t, mkDiv(at, numBig(pow2(k))))
		}
		// symbolic count
		p2 := ex.pow2UF()
		cnt := ex.sc.define("sh", sInt, bt)
		if x.Op == token.SHL {
			r := mkIte(mkCmp(">=", cnt, num(int64(bits))), "0", ex.wrapMod(t, mkMul(at, app(p2, cnt))))
			return scalar(t, ex.sc.define("shl", sInt, r))
		}
		r := mkIte(mkCmp(">=", cnt, num(int64(bits))), mkIte(mkCmp("<", at, "0"), "(- 1)", "0"), mkDiv(at, app(p2, cnt)))
		return scalar(t, ex.sc.define("shr", sInt, r))
	}
	panic(unsupported("binary operator " + x.Op.String()))
}

// pow2UF declares pow2 with its ground table for 0..64.
func (ex *Exec) pow2UF() string {
	if _, ok := ex.sc.decls["pow2"]; !ok {
		ex.sc.fun("pow2", []string{sInt}, sInt)
		for i := 0; i <= 64; i++ {
			ex.sc.axiom(mkEq(app("pow2", num(int64(i))), numBig(pow2(uint(i)))))
		}
		ex.sc.axiom("(forall ((k Int)) (! (=> (>= k 0) (>= (pow2 k) 1)) :pattern ((pow2 k))))")
		ex.sc.axiom("(forall ((k Int)) (! (=> (and (>= k 0) (< k 32)) (< (pow2 k) 4294967296)) :pattern ((pow2 k))))")
	}
	return "pow2"
}

func (ex *Exec) wrapMod2(t types.Type, term, a, b string) string {
	// multiplication: exact when one side is a small literal and ranges allow;
	// in general reduce modulo 2^w.
	return ex.wrapMod(t, term)
}

func isStringType(t types.Type) bool {
	b, ok := t.Underlying().(*types.Basic)
	return ok && b.Info()&types.IsString != 0
}

func (ex *Exec) strCat(a, b string) string {
	if a == "STR_EMPTY" {
		return b
	}
	if b == "STR_EMPTY" {
		return a
	}
	return app("scat", a, b)
}

// valEq compares two values of the same type.
func (ex *Exec) valEq(a, b Val, xa, xb ssa.Value) string {
	if a.LV != nil || b.LV != nil {
		a, b = ex.lower(a), ex.lower(b)
	}
	if a.Fn != nil || b.Fn != nil {
		// comparison of a function value with nil
		if a.Fn != nil && b.Fn == nil {
			return "false"
		}
		if b.Fn != nil && a.Fn == nil {
			return "false"
		}
		panic(unsupported("comparison of function values"))
	}
	if isStringType(a.T) {
		if c, ok := xb.(*ssa.Const); ok && xb != nil && c.Value != nil {
			return ex.sc.strEqLit(a.term(), constString(c))
		}
		if c, ok := xa.(*ssa.Const); ok && xa != nil && c.Value != nil {
			return ex.sc.strEqLit(b.term(), constString(c))
		}
		return mkEq(a.term(), b.term())
	}
	switch a.T.Underlying().(type) {
	case *types.Slice:
		// only comparison with nil is legal
		if b.L[0] == "0" {
			return mkEq(a.L[0], "0")
		}
		return mkEq(b.L[0], "0")
	case *types.Interface:
		if _, ok := b.T.Underlying().(*types.Interface); ok {
			return mkAnd(mkEq(a.L[0], b.L[0]), mkEq(a.L[1], b.L[1]))
		}
	}
	if len(a.L) != len(b.L) {
		// comparison with untyped nil
		if len(b.L) == 1 && b.L[0] == "0" {
			return mkEq(a.L[0], "0")
		}
		if len(a.L) == 1 && a.L[0] == "0" {
			return mkEq(b.L[0], "0")
		}
		panic(unsupported(fmt.Sprintf("comparison of %v and %v", a.T, b.T)))
	}
	var cs []string
	for i := range a.L {
		cs = append(cs, mkEq(a.L[i], b.L[i]))
	}
	return mkAnd(cs...)
}

// ---------------------------------------------------------------------------
// conversions

func (ex *Exec) execConvert(fr *Frame, st *State, reach string, x *ssa.Convert) Val {
	v := ex.get(fr, x.X)
	from, to := x.X.Type(), x.Type()
	fu, tu := from.Underlying(), to.Underlying()
	// integer -> integer
	if _, _, ok := intInfo(to); ok {
		if fbits, fsigned, ok2 := intInfo(from); ok2 {
			tbits, tsigned, _ := intInfo(to)
			if (fsigned == tsigned && fbits <= tbits) || (!fsigned && tsigned && fbits < tbits) {
				return scalar(to, v.term())
			}
			return scalar(to, ex.wrapMod(to, v.term()))
		}
		if fb, ok2 := fu.(*types.Basic); ok2 && fb.Info()&types.IsFloat != 0 {
			return ex.freshVal(st, to, "f2i")
		}
		if fb, ok2 := fu.(*types.Basic); ok2 && fb.Kind() == types.UnsafePointer {
			return ex.freshVal(st, to, "p2i")
		}
	}
	if tb, ok := tu.(*types.Basic); ok {
		switch {
		case tb.Info()&types.IsFloat != 0:
			return scalar(to, ex.sc.fresh("float", "Real"))
		case tb.Info()&types.IsString != 0:
			// string(bytes) / string(runes) / string(rune)
			if sl, ok := fu.(*types.Slice); ok {
				if eb, ok := sl.Elem().Underlying().(*types.Basic); ok && eb.Kind() == types.Uint8 {
					return scalar(to, ex.bytesToString(st, v))
				}
				r := ex.freshVal(st, to, "runes2s")
				return r
			}
			if _, _, ok := intInfo(from); ok {
				r := ex.freshVal(st, to, "rune2s")
				// one ASCII rune gives a one-byte string
				ex.sc.assert(mkImp(mkAnd(mkCmp(">=", v.term(), "0"), mkCmp("<", v.term(), "128")),
					mkAnd(mkEq(app("slen", r.term()), "1"), mkEq(app("sat", r.term(), "0"), v.term()))))
				ex.sc.assert(mkAnd(mkCmp(">=", app("slen", r.term()), "1"), mkCmp("<=", app("slen", r.term()), "4")))
				return r
			}
			if isStringType(from) {
				return scalar(to, v.term())
			}
		case tb.Kind() == types.UnsafePointer:
			// *T -> unsafe.Pointer : keep the lvalue
			if v.LV != nil {
				return Val{T: to, LV: v.LV}
			}
			return Val{T: to, LV: ex.ptrLV(v)}
		}
	}
	if sl, ok := tu.(*types.Slice); ok && isStringType(from) {
		eb, _ := sl.Elem().Underlying().(*types.Basic)
		if eb != nil && eb.Kind() == types.Uint8 {
			return ex.stringToBytes(st, v.term(), to)
		}
		// []rune(s)
		r := ex.freshSlice(st, to, "runes")
		ex.sc.assert(mkCmp("<=", r.L[2], app("slen", v.term())))
		return r
	}
	if pt, ok := tu.(*types.Pointer); ok {
		if fb, ok2 := fu.(*types.Basic); ok2 && fb.Kind() == types.UnsafePointer {
			return ex.viewPointer(fr, st, reach, v, pt, x.Pos())
		}
	}
	if types.IdenticalIgnoreTags(fu, tu) {
		v.T = to
		return v
	}
	panic(unsupported(fmt.Sprintf("conversion %v -> %v", from, to)))
}

// bytesToString: string(b) for a byte slice value.
func (ex *Exec) bytesToString(st *State, b Val) string {
	bt := types.Typ[types.Uint8]
	c := ex.comp(st, compE(bt, 0), sArr(sInt, sArr(sInt, sInt)))
	arr := ex.sc.define("bytes", sArr(sInt, sInt), mkSelect(c, b.L[0]))
	s := ex.sc.define("s", sStr, app("sfrom", arr, b.L[1], b.L[2]))
	ex.sc.assert(mkEq(app("slen", s), b.L[2]))
	return s
}

func (ex *Exec) freshSlice(st *State, t types.Type, hint string) Val {
	r := ex.newRef(st, hint)
	ln := ex.sc.fresh(hint+"_len", sInt)
	cp := ex.sc.fresh(hint+"_cap", sInt)
	ex.sc.assert(mkAnd(mkCmp(">=", ln, "0"), mkCmp("<=", ln, cp)))
	return Val{T: t, L: []string{r, "0", ln, cp}}
}

// stringToBytes: []byte(s) — a fresh array holding the bytes of s.
func (ex *Exec) stringToBytes(st *State, s string, t types.Type) Val {
	bt := types.Typ[types.Uint8]
	name := compE(bt, 0)
	srt := sArr(sInt, sArr(sInt, sInt))
	r := ex.newRef(st, "bytes")
	arr := ex.sc.fresh("sbytes", sArr(sInt, sInt))
	ex.sc.assert(fmt.Sprintf("(forall ((i Int)) (! (=> (and (<= 0 i) (< i (slen %s))) (= (select %s i) (sat %s i))) :pattern ((select %s i))))", s, arr, s, arr))
	c := ex.comp(st, name, srt)
	ex.setComp(st, name, srt, mkStore(c, r, arr))
	ex.noteWrite(name, r)
	ln := app("slen", s)
	cp := ex.sc.fresh("cap", sInt)
	ex.sc.assert(mkCmp(">=", cp, ln))
	return Val{T: t, L: []string{r, "0", ln, cp}}
}

// ---------------------------------------------------------------------------
// indexing and slicing

func (ex *Exec) boundsOblige(fr *Frame, reach string, pos token.Pos, idx, n string, what string) {
	ex.oblige(fr, "bounds", nil, pos, what, reach, mkAnd(mkCmp("<=", "0", idx), mkCmp("<", idx, n)))
}

func (ex *Exec) execIndexAddr(fr *Frame, st *State, reach string, x *ssa.IndexAddr) {
	base := ex.get(fr, x.X)
	idx := ex.get(fr, x.Index).term()
	switch bt := x.X.Type().Underlying().(type) {
	case *types.Slice:
		ex.boundsOblige(fr, reach, x.Pos(), idx, base.L[2], "index out of range (slice)")
		abs := ex.sc.define("ix", sInt, idxAdd(base.L[1], idx))
		fr.regs[x] = Val{T: x.Type(), LV: &LValue{Kind: lvElem, Root: bt.Elem(), Ref: base.L[0], Idx: abs, T: bt.Elem(),
			Lim: ex.sc.define("lim", sInt, mkAdd(base.L[1], base.L[2]))}}
	case *types.Pointer:
		arr := bt.Elem().Underlying().(*types.Array)
		ex.boundsOblige(fr, reach, x.Pos(), idx, num(arr.Len()), "index out of range (array)")
		lv := ex.derefLV(fr, st, reach, base, x.Pos())
		n := *lv
		n.Path = append(append([]pathStep(nil), lv.Path...), pathStep{Field: -1, Index: idx})
		n.T = arr.Elem()
		fr.regs[x] = Val{T: x.Type(), LV: &n}
	default:
		panic(unsupported(fmt.Sprintf("IndexAddr on %v", x.X.Type())))
	}
}

func (ex *Exec) execIndex(fr *Frame, st *State, reach string, x *ssa.Index) {
	base := ex.get(fr, x.X)
	idx := ex.get(fr, x.Index).term()
	switch bt := x.X.Type().Underlying().(type) {
	case *types.Basic: // string
		ex.boundsOblige(fr, reach, x.Pos(), idx, app("slen", base.term()), "index out of range (string)")
		fr.regs[x] = scalar(x.Type(), app("sat", base.term(), idx))
	case *types.Array:
		ex.boundsOblige(fr, reach, x.Pos(), idx, num(bt.Len()), "index out of range (array value)")
		out := Val{T: bt.Elem(), L: make([]string, len(base.L))}
		for i := range base.L {
			out.L[i] = mkSelect(base.L[i], idx)
		}
		fr.regs[x] = out
	default:
		panic(unsupported(fmt.Sprintf("Index on %v", x.X.Type())))
	}
}

func (ex *Exec) execLookup(fr *Frame, st *State, reach string, x *ssa.Lookup) {
	base := ex.get(fr, x.X)
	key := ex.get(fr, x.Index)
	if isStringType(x.X.Type()) {
		idx := key.term()
		ex.boundsOblige(fr, reach, x.Pos(), idx, app("slen", base.term()), "index out of range (string)")
		fr.regs[x] = scalar(x.Type(), app("sat", base.term(), idx))
		return
	}
	v, ok := ex.mapLoad(st, base, key)
	if x.CommaOk {
		fr.regs[x] = Val{T: x.Type(), Tup: []Val{v, scalar(types.Typ[types.Bool], ok)}}
	} else {
		fr.regs[x] = v
	}
}

func (ex *Exec) execSlice(fr *Frame, st *State, reach string, x *ssa.Slice) {
	base := ex.get(fr, x.X)
	var lo, hi, max string
	if x.Low != nil {
		lo = ex.get(fr, x.Low).term()
	} else {
		lo = "0"
	}
	switch bt := x.X.Type().Underlying().(type) {
	case *types.Basic: // string
		n := app("slen", base.term())
		if x.High != nil {
			hi = ex.get(fr, x.High).term()
		} else {
			hi = n
		}
		ex.oblige(fr, "bounds", nil, x.Pos(), "slice bounds out of range (string)", reach,
			mkAnd(mkCmp("<=", "0", lo), mkCmp("<=", lo, hi), mkCmp("<=", hi, n)))
		if lo == "0" && x.High == nil {
			fr.regs[x] = base
			return
		}
		r := ex.sc.define("sub", sStr, app("ssub", base.term(), lo, hi))
		ex.sc.assert(mkImp(mkAnd(mkCmp("<=", "0", lo), mkCmp("<=", lo, hi), mkCmp("<=", hi, n)), mkEq(app("slen", r), mkSub(hi, lo))))
		fr.regs[x] = scalar(x.Type(), r)
	case *types.Slice:
		ln, cp := base.L[2], base.L[3]
		if x.High != nil {
			hi = ex.get(fr, x.High).term()
		} else {
			hi = ln
		}
		if x.Max != nil {
			max = ex.get(fr, x.Max).term()
		} else {
			max = cp
		}
		ex.oblige(fr, "bounds", nil, x.Pos(), "slice bounds out of range", reach,
			mkAnd(mkCmp("<=", "0", lo), mkCmp("<=", lo, hi), mkCmp("<=", hi, max), mkCmp("<=", max, cp)))
		fr.regs[x] = Val{T: x.Type(), L: []string{base.L[0], ex.sc.define("off", sInt, mkAdd(base.L[1], lo)),
			ex.sc.define("len", sInt, mkSub(hi, lo)), ex.sc.define("cap", sInt, mkSub(max, lo))}}
		_ = bt
	case *types.Pointer:
		arr := bt.Elem().Underlying().(*types.Array)
		n := num(arr.Len())
		if x.High != nil {
			hi = ex.get(fr, x.High).term()
		} else {
			hi = n
		}
		if x.Max != nil {
			max = ex.get(fr, x.Max).term()
		} else {
			max = n
		}
		ex.oblige(fr, "bounds", nil, x.Pos(), "slice bounds out of range (array)", reach,
			mkAnd(mkCmp("<=", "0", lo), mkCmp("<=", lo, hi), mkCmp("<=", hi, max), mkCmp("<=", max, n)))
		var ref string
		if base.LV != nil {
			switch {
			case base.LV.Kind == lvArr && len(base.LV.Path) == 0:
				ref = base.LV.Ref
			case base.LV.Kind == lvView:
				fr.regs[x] = ex.execSliceView(st, base, lo, hi, max, x.Type())
				return
			default:
				panic(unsupported("slice of an array that is not a root object"))
			}
		} else {
			ex.oblige(fr, "nil", nil, x.Pos(), "nil array pointer", reach, mkNot(mkEq(base.term(), "0")))
			ref = base.term()
		}
		fr.regs[x] = Val{T: x.Type(), L: []string{ref, lo, ex.sc.define("len", sInt, mkSub(hi, lo)), ex.sc.define("cap", sInt, mkSub(max, lo))}}
	default:
		panic(unsupported(fmt.Sprintf("Slice of %v", x.X.Type())))
	}
}

func (ex *Exec) execMakeSlice(fr *Frame, st *State, reach string, x *ssa.MakeSlice) {
	ln := ex.get(fr, x.Len).term()
	cp := ex.get(fr, x.Cap).term()
	ex.oblige(fr, "conv", nil, x.Pos(), "makeslice: len out of range", reach, mkAnd(mkCmp("<=", "0", ln), mkCmp("<=", ln, cp)))
	ex.allocOblige(fr, st, reach, x.Pos(), cp)
	fr.regs[x] = ex.makeSlice(st, x.Type(), ln, cp)
}

func (ex *Exec) makeSlice(st *State, t types.Type, ln, cp string) Val {
	elem := t.Underlying().(*types.Slice).Elem()
	r := ex.newRef(st, "mk")
	leaves := flatten(elem)
	for k, l := range leaves {
		name := compE(elem, k)
		srt := sArr(sInt, sArr(sInt, l.Sort))
		c := ex.comp(st, name, srt)
		z := "((as const " + sArr(sInt, l.Sort) + ") " + zeroLeaf(l) + ")"
		if l.Sort == sStr {
			z = "STR_EMPTY_ARR"
		}
		ex.setComp(st, name, srt, mkStore(c, r, z))
		ex.noteWrite(name, r)
	}
	return Val{T: t, L: []string{r, "0", ln, cp}}
}

// ---------------------------------------------------------------------------
// maps

func mapKV(t types.Type) (*types.Map, Leaf) {
	m := t.Underlying().(*types.Map)
	kl := flatten(m.Key())
	if len(kl) != 1 || len(kl[0].Dims) > 0 {
		panic(unsupported("map key type " + m.Key().String()))
	}
	return m, kl[0]
}

func (ex *Exec) makeMap(st *State, t types.Type) Val {
	m, kl := mapKV(t)
	r := ex.newRef(st, "map")
	dn := compMdom(t)
	ds := sArr(sInt, sArr(kl.Sort, sBool))
	ex.setComp(st, dn, ds, mkStore(ex.comp(st, dn, ds), r, "((as const "+sArr(kl.Sort, sBool)+") false)"))
	ex.noteWrite(dn, r)
	ln := compMlen(t)
	ex.setComp(st, ln, sArr(sInt, sInt), mkStore(ex.comp(st, ln, sArr(sInt, sInt)), r, "0"))
	ex.noteWrite(ln, r)
	_ = m
	return Val{T: t, L: []string{r}}
}

func (ex *Exec) mapDom(st *State, m Val) string {
	_, kl := mapKV(m.T)
	return mkSelect(ex.comp(st, compMdom(m.T), sArr(sInt, sArr(kl.Sort, sBool))), m.term())
}

func (ex *Exec) mapLoad(st *State, m, key Val) (Val, string) {
	mt, kl := mapKV(m.T)
	k := key.term()
	in := ex.sc.define("in", sBool, mkAnd(mkNot(mkEq(m.term(), "0")), mkSelect(ex.mapDom(st, m), k)))
	leaves := flatten(mt.Elem())
	out := Val{T: mt.Elem(), L: make([]string, len(leaves))}
	for i, l := range leaves {
		c := ex.comp(st, compMval(m.T, i), sArr(sInt, sArr(kl.Sort, l.Sort)))
		raw := ex.sc.define("mv", l.Sort, mkSelect(mkSelect(c, m.term()), k))
		ex.sc.assert(mkImp(in, leafRangeAssumption(l, raw)))
		out.L[i] = mkIte(in, raw, zeroLeaf(l))
	}
	// well-formedness of stored values
	wf := Val{T: mt.Elem(), L: make([]string, len(leaves))}
	for i := range leaves {
		wf.L[i] = ex.sc.define("mvz", leaves[i].Sort, out.L[i])
	}
	ex.assumeWF(st, wf)
	return wf, in
}

func (ex *Exec) mapStore(st *State, m, key, v Val) {
	mt, kl := mapKV(m.T)
	v = ex.lower(v)
	k := key.term()
	r := m.term()
	dn := compMdom(m.T)
	ds := sArr(sInt, sArr(kl.Sort, sBool))
	dc := ex.comp(st, dn, ds)
	was := ex.sc.define("was", sBool, mkSelect(mkSelect(dc, r), k))
	ex.setComp(st, dn, ds, mkStore(dc, r, mkStore(mkSelect(dc, r), k, "true")))
	ex.noteWrite(dn, r)
	ln := compMlen(m.T)
	lc := ex.comp(st, ln, sArr(sInt, sInt))
	ex.setComp(st, ln, sArr(sInt, sInt), mkStore(lc, r, mkIte(was, mkSelect(lc, r), mkAdd(mkSelect(lc, r), "1"))))
	ex.noteWrite(ln, r)
	leaves := flatten(mt.Elem())
	for i, l := range leaves {
		name := compMval(m.T, i)
		srt := sArr(sInt, sArr(kl.Sort, l.Sort))
		c := ex.comp(st, name, srt)
		ex.setComp(st, name, srt, mkStore(c, r, mkStore(mkSelect(c, r), k, v.L[i])))
		ex.noteWrite(name, r)
	}
}

func (ex *Exec) mapDelete(st *State, m, key Val) {
	_, kl := mapKV(m.T)
	k := key.term()
	r := m.term()
	dn := compMdom(m.T)
	ds := sArr(sInt, sArr(kl.Sort, sBool))
	dc := ex.comp(st, dn, ds)
	was := ex.sc.define("was", sBool, mkSelect(mkSelect(dc, r), k))
	ex.setComp(st, dn, ds, mkStore(dc, r, mkStore(mkSelect(dc, r), k, "false")))
	ex.noteWrite(dn, r)
	ln := compMlen(m.T)
	lc := ex.comp(st, ln, sArr(sInt, sInt))
	ex.setComp(st, ln, sArr(sInt, sInt), mkStore(lc, r, mkIte(was, mkSub(mkSelect(lc, r), "1"), mkSelect(lc, r))))
	ex.noteWrite(ln, r)
}

func (ex *Exec) mapLen(st *State, m Val) string {
	lc := ex.comp(st, compMlen(m.T), sArr(sInt, sInt))
	l := ex.sc.define("mlen", sInt, mkIte(mkEq(m.term(), "0"), "0", mkSelect(lc, m.term())))
	ex.sc.assert(mkCmp(">=", l, "0"))
	return l
}

// ---------------------------------------------------------------------------
// interfaces

func (ex *Exec) tid(t types.Type) string {
	key := types.TypeString(t, nil)
	if id, ok := ex.eng.tids[key]; ok {
		return num(int64(id))
	}
	id := len(ex.eng.tids) + 1
	ex.eng.tids[key] = id
	ex.eng.tidTypes[id] = t
	return num(int64(id))
}

func (ex *Exec) makeInterface(st *State, v Val, it types.Type) Val {
	tid := ex.tid(v.T)
	var pay string
	switch u := v.T.Underlying().(type) {
	case *types.Pointer:
		pay = ex.lower(v).term()
	case *types.Basic:
		switch {
		case u.Info()&types.IsInteger != 0:
			pay = v.term()
		case u.Info()&types.IsString != 0:
			ex.sc.fun("box_str", []string{sStr}, sInt)
			ex.sc.fun("unbox_str", []string{sInt}, sStr)
			pay = ex.sc.define("box", sInt, app("box_str", v.term()))
			ex.sc.axiom(mkEq(app("unbox_str", pay), v.term()))
		case u.Info()&types.IsBoolean != 0:
			pay = mkIte(v.term(), "1", "0")
		default:
			pay = ex.sc.fresh("box", sInt)
		}
	case *types.Map, *types.Signature, *types.Chan:
		pay = ex.lower(v).term()
	default:
		pay = ex.sc.fresh("box", sInt)
		ex.boxed[pay] = v
	}
	return Val{T: it, L: []string{tid, pay}}
}

func (ex *Exec) unbox(pay string, t types.Type, st *State) Val {
	switch u := t.Underlying().(type) {
	case *types.Pointer, *types.Map, *types.Signature, *types.Chan:
		v := Val{T: t, L: []string{pay}}
		return v
	case *types.Basic:
		switch {
		case u.Info()&types.IsInteger != 0:
			return scalar(t, pay)
		case u.Info()&types.IsString != 0:
			ex.sc.fun("box_str", []string{sStr}, sInt)
			ex.sc.fun("unbox_str", []string{sInt}, sStr)
			return scalar(t, app("unbox_str", pay))
		case u.Info()&types.IsBoolean != 0:
			return scalar(t, mkEq(pay, "1"))
		}
	}
	if v, ok := ex.boxed[pay]; ok {
		return v
	}
	return ex.freshVal(st, t, "unboxed")
}

func (ex *Exec) execTypeAssert(fr *Frame, st *State, reach string, x *ssa.TypeAssert) {
	v := ex.get(fr, x.X)
	at := x.AssertedType
	if _, isIface := at.Underlying().(*types.Interface); isIface {
		// interface-to-interface assertion: succeeds iff the dynamic type implements it
		impl := ex.implementsPred(v.L[0], at)
		if x.CommaOk {
			res := Val{T: at, L: []string{mkIte(impl, v.L[0], "0"), mkIte(impl, v.L[1], "0")}}
			fr.regs[x] = Val{T: x.Type(), Tup: []Val{res, scalar(types.Typ[types.Bool], impl)}}
			return
		}
		ex.oblige(fr, "typeassert", nil, x.Pos(), "interface conversion may fail", reach, impl)
		fr.regs[x] = Val{T: at, L: v.L}
		return
	}
	ok := ex.sc.define("isT", sBool, mkEq(v.L[0], ex.tid(at)))
	val := ex.unbox(v.L[1], at, st)
	if x.CommaOk {
		// zero value when the assertion fails
		z := ex.zeroVal(at)
		res := Val{T: at, L: make([]string, len(z.L))}
		lval := ex.lower(val)
		for i := range z.L {
			res.L[i] = mkIte(ok, lval.L[i], z.L[i])
		}
		fr.regs[x] = Val{T: x.Type(), Tup: []Val{res, scalar(types.Typ[types.Bool], ok)}}
		return
	}
	ex.oblige(fr, "typeassert", nil, x.Pos(), "type assertion may fail", reach, ok)
	fr.regs[x] = val
}

// implementsPred: does dynamic type id tid implement interface it? Decided for
// the type ids known to the engine; unknown ids are unconstrained.
func (ex *Exec) implementsPred(tid string, it types.Type) string {
	name := "impl_" + sanitize(types.TypeString(it, nil))
	ex.sc.fun(name, []string{sInt}, sBool)
	iface := it.Underlying().(*types.Interface)
	for id, t := range ex.eng.tidTypes {
		if types.Implements(t, iface) {
			ex.sc.axiom(app(name, num(int64(id))))
		} else {
			ex.sc.axiom(mkNot(app(name, num(int64(id)))))
		}
	}
	ex.sc.axiom(mkNot(app(name, "0")))
	return app(name, tid)
}

// ---------------------------------------------------------------------------
// range / next

func (ex *Exec) execRange(fr *Frame, st *State, x *ssa.Range) {
	coll := ex.get(fr, x.X)
	ex.iterCount++
	it := &iterState{coll: coll, id: ex.iterCount}
	// hidden cell for the iterator's ghost state, keyed by a synthetic alloc
	ck := cellKey{fr.id, ex.eng.hiddenAlloc(x)}
	it.posCell = ck
	if isStringType(x.X.Type()) {
		it.kind = 1
		st.cells[ck] = scalar(types.Typ[types.Int], "0")
		ex.hiddenCells[ck] = types.Typ[types.Int]
	} else {
		it.kind = 0
		_, kl := mapKV(x.X.Type())
		// ghost visited set
		st.cells[ck] = Val{GS: sArr(kl.Sort, sBool), L: []string{"((as const " + sArr(kl.Sort, sBool) + ") false)"}}
		ex.hiddenCells[ck] = nil
	}
	fr.regs[x] = Val{T: x.Type(), It: it}
}

func (ex *Exec) execNext(fr *Frame, st *State, reach string, x *ssa.Next) {
	itv := ex.get(fr, x.Iter)
	it := itv.It
	tup := x.Type().(*types.Tuple)
	boolT := types.Typ[types.Bool]
	if it.kind == 1 {
		s := it.coll.term()
		pos := st.cells[it.posCell].term()
		n := app("slen", s)
		ok := ex.sc.define("ok", sBool, mkCmp("<", pos, n))
		b := ex.sc.define("b", sInt, app("sat", s, pos))
		r := ex.sc.fresh("rune", sInt)
		np := ex.sc.fresh("npos", sInt)
		ex.sc.assert(mkImp(ok, mkIte(mkCmp("<", b, "128"),
			mkAnd(mkEq(r, b), mkEq(np, mkAdd(pos, "1"))),
			mkAnd(mkCmp(">=", r, "128"), mkCmp("<=", r, "1114111"), mkCmp(">", np, pos), mkCmp("<=", np, mkAdd(pos, "4")), mkCmp("<=", np, n)))))
		ex.sc.assert(mkAnd(mkCmp("<=", "0", pos), mkCmp("<=", pos, n)))
		st.cells[it.posCell] = scalar(types.Typ[types.Int], mkIte(ok, np, pos))
		fr.regs[x] = Val{T: x.Type(), Tup: []Val{scalar(boolT, ok), scalar(tup.At(1).Type(), pos), scalar(tup.At(2).Type(), r)}}
		return
	}
	// map
	m := it.coll
	mt, kl := mapKV(m.T)
	visited := st.cells[it.posCell].L[0]
	ok := ex.sc.fresh("ok", sBool)
	k := ex.sc.fresh("k", kl.Sort)
	ex.sc.assert(leafRangeAssumption(kl, k))
	dom := ex.mapDom(st, m)
	ex.sc.assert(mkImp(ok, mkAnd(mkNot(mkEq(m.term(), "0")), mkSelect(dom, k), mkNot(mkSelect(visited, k)))))
	// exhaustion: when the loop ends every key has been visited (only sound if
	// the map is not modified by the loop; recorded per iterator and dropped
	// otherwise, see enterLoop)
	if !ex.mapIterModified[it.posCell] {
		ex.sc.assert(mkImp(mkAnd(mkNot(ok), mkNot(mkEq(m.term(), "0"))),
			fmt.Sprintf("(forall ((kk %s)) (! (=> (select %s kk) (select %s kk)) :pattern ((select %s kk))))", kl.Sort, dom, visited, dom)))
	}
	st.cells[it.posCell] = Val{GS: sArr(kl.Sort, sBool), L: []string{ex.sc.define("visited", sArr(kl.Sort, sBool), mkIte(ok, mkStore(visited, k, "true"), visited))}}
	kv := Val{T: mt.Key(), L: []string{k}}
	vv, _ := ex.mapLoad(st, m, kv)
	var kOut, vOut Val
	kOut, vOut = kv, vv
	if b, isB := tup.At(1).Type().(*types.Basic); isB && b.Kind() == types.Invalid {
		kOut = Val{T: tup.At(1).Type()}
	}
	if b, isB := tup.At(2).Type().(*types.Basic); isB && b.Kind() == types.Invalid {
		vOut = Val{T: tup.At(2).Type()}
	}
	fr.regs[x] = Val{T: x.Type(), Tup: []Val{scalar(boolT, ok), kOut, vOut}}
}
