package main

// Counterexample search (quantifier-free relaxation of the failed query, used
// only to obtain candidate inputs) and replay against the real code through
// `go test -overlay` (nothing is written into /repo).

import (
	"bytes"
	"context"
	"encoding/json"
	"fmt"
	"go/types"
	"os"
	"os/exec"
	"path/filepath"
	"regexp"
	"strings"
	"time"

	"golang.org/x/tools/go/ssa"
)

func qfLines(o *Obligation) []string {
	var out []string
	for _, l := range prelude("ALL") {
		if strings.Contains(l, "forall") {
			// keep the harmless range axioms of strings as they are needed for sane models
			if strings.Contains(l, "(>= (slen s) 0)") || strings.Contains(l, "(<= 0 (sat s i))") {
				out = append(out, l)
			}
			continue
		}
		out = append(out, l)
	}
	for _, l := range o.sc.lines[:o.Prefix] {
		if strings.Contains(l, "(forall ") || strings.Contains(l, "(exists ") {
			continue
		}
		out = append(out, l)
	}
	out = append(out, "(assert (not "+o.Goal+"))")
	return out
}

var valRe = regexp.MustCompile(`\(\s*([^\s()]+|\([^()]*\))\s+(\(-\s*\d+\)|-?\d+|true|false)\s*\)`)

func runGetValues(lines []string, terms []string, timeoutS int) (map[string]string, string) {
	q := append([]string{}, lines...)
	q = append(q, "(check-sat)")
	if len(terms) > 0 {
		q = append(q, "(get-value ("+strings.Join(terms, " ")+"))")
	}
	file := writeQuery("cex", q)
	defer func() {
		if !keepScratch {
			removeFile(file)
		}
	}()
	for _, sp := range []solverSpec{solvers[0], solvers[1]} {
		st, out, _ := runSolver(sp, file, timeoutS)
		if st != "sat" {
			continue
		}
		vals := map[string]string{}
		// parse "((term value) (term value))" pairwise in order of terms
		rest := out[strings.Index(out, "\n")+1:]
		for _, t := range terms {
			i := strings.Index(rest, "("+t+" ")
			if i < 0 {
				continue
			}
			seg := rest[i+len(t)+2:]
			v := parseSmtValue(seg)
			vals[t] = v
		}
		return vals, "sat"
	}
	return nil, "unknown"
}

func parseSmtValue(seg string) string {
	seg = strings.TrimSpace(seg)
	if strings.HasPrefix(seg, "(-") {
		j := strings.Index(seg, ")")
		return "-" + strings.TrimSpace(seg[2:j])
	}
	j := strings.IndexAny(seg, ") \n")
	if j < 0 {
		return seg
	}
	return seg[:j]
}

type goArg struct {
	Name string
	Type string
	Expr string // Go expression constructing the value
}

// counterexample tries to find inputs for the unit's top function that make
// the obligation fail, and replays them when a generic adapter exists.
func (eng *Engine) counterexample(verif, repo, prop string, o *Obligation) (map[string]interface{}, bool) {
	fn := eng.fnByKey[o.Unit]
	if fn == nil || len(o.Inputs) == 0 {
		return nil, false
	}
	base := qfLines(o)
	var terms []string
	for _, in := range o.Inputs {
		terms = append(terms, inputScalarTerms(in.V)...)
	}
	panicKind := !(o.Kind == "post" || o.Kind == "inv-init" || o.Kind == "inv-step" || o.Kind == "pre" || o.Kind == "frame" || o.Kind == "lock")
	// The relaxation drops quantified facts (callee contracts, string axioms), so its
	// model is only a candidate. Candidates are tried from the smallest inputs up;
	// the first one that makes the real code fail is the counterexample.
	bounds := []int{0, 1, 2, 3, 4, 8, 64, 4096}
	if !panicKind {
		bounds = []int{4096}
	}
	var last map[string]interface{}
	tried := 0
	for _, bound := range bounds {
		lines := append([]string{}, base...)
		for _, t := range terms {
			if strings.HasSuffix(t, "_len") || strings.HasPrefix(t, "(slen ") {
				lines = append(lines, fmt.Sprintf("(assert (<= %s %d))", t, bound))
			}
		}
		vals, st := runGetValues(lines, terms, 5)
		if st != "sat" {
			continue
		}
		pinned := append([]string{}, lines...)
		for t, v := range vals {
			pinned = append(pinned, "(assert (= "+t+" "+smtNum(v)+"))")
		}
		var terms2 []string
		for _, in := range o.Inputs {
			terms2 = append(terms2, inputContentTerms(in.V, vals)...)
		}
		vals2 := map[string]string{}
		if len(terms2) > 0 {
			if v2, st2 := runGetValues(pinned, terms2, 5); st2 == "sat" {
				vals2 = v2
			}
		}
		for k, v := range vals {
			vals2[k] = v
		}
		cex := map[string]interface{}{}
		var args []goArg
		simple := true
		for _, in := range o.Inputs {
			expr, desc, ok := goValue(in.V, vals2)
			cex[in.Name] = desc
			if !ok {
				simple = false
			}
			args = append(args, goArg{Name: in.Name, Type: types.TypeString(in.V.T, nil), Expr: expr})
		}
		last = cex
		if !simple {
			cex["replay"] = "no generic adapter for these parameter types"
			return cex, false
		}
		if !panicKind {
			cex["replay"] = "functional clause: candidate inputs only (no generic clause oracle)"
			return cex, false
		}
		tried++
		ok, out := eng.replayPanic(repo, fn, args)
		cex["replay_output"] = trunc(out, 1500)
		cex["candidates_tried"] = tried
		if ok {
			return cex, true
		}
		if tried >= 6 {
			break
		}
	}
	if last == nil {
		return map[string]interface{}{"search": "quantifier-free relaxation gave no model"}, false
	}
	return last, false
}

func smtNum(v string) string {
	if strings.HasPrefix(v, "-") {
		return "(- " + v[1:] + ")"
	}
	return v
}

func inputScalarTerms(v Val) []string {
	if v.T == nil {
		return nil
	}
	var out []string
	leaves := flatten(v.T)
	if len(leaves) != len(v.L) {
		return nil
	}
	for i, l := range leaves {
		if len(l.Dims) > 0 {
			continue
		}
		switch l.Sort {
		case sInt, sBool:
			out = append(out, v.L[i])
		case sStr:
			out = append(out, "(slen "+v.L[i]+")")
		}
	}
	return out
}

const maxReplayLen = 8192

func inputContentTerms(v Val, vals map[string]string) []string {
	var out []string
	if v.T == nil {
		return nil
	}
	switch u := v.T.Underlying().(type) {
	case *types.Basic:
		if isStringType(v.T) {
			n := atoiSafe(vals["(slen "+v.L[0]+")"])
			for i := 0; i < n && i < maxReplayLen; i++ {
				out = append(out, fmt.Sprintf("(sat %s %d)", v.L[0], i))
			}
		}
	case *types.Slice:
		if b, ok := u.Elem().Underlying().(*types.Basic); ok && b.Kind() == types.Uint8 {
			n := atoiSafe(vals[v.L[2]])
			off := atoiSafe(vals[v.L[1]])
			for i := 0; i < n && i < maxReplayLen; i++ {
				out = append(out, fmt.Sprintf("(select (select H0_E_uint8_0 %s) %d)", v.L[0], off+i))
			}
		}
	}
	return out
}

func atoiSafe(s string) int {
	var n int
	fmt.Sscanf(s, "%d", &n)
	return n
}

// goValue renders a Go expression for the model value of v.
func goValue(v Val, vals map[string]string) (string, interface{}, bool) {
	if v.T == nil {
		return "", nil, false
	}
	qual := func(p *types.Package) string { return p.Name() }
	ts := types.TypeString(v.T, qual)
	switch u := v.T.Underlying().(type) {
	case *types.Basic:
		switch {
		case u.Info()&types.IsString != 0:
			n := atoiSafe(vals["(slen "+v.L[0]+")"])
			if n > maxReplayLen {
				return "", fmt.Sprintf("string of length %d", n), false
			}
			b := make([]byte, n)
			for i := range b {
				b[i] = byte(atoiSafe(vals[fmt.Sprintf("(sat %s %d)", v.L[0], i)]))
			}
			return fmt.Sprintf("%s(%q)", ts, string(b)), string(b), true
		case u.Info()&types.IsInteger != 0:
			return fmt.Sprintf("%s(%s)", ts, vals[v.L[0]]), vals[v.L[0]], vals[v.L[0]] != ""
		case u.Info()&types.IsBoolean != 0:
			return fmt.Sprintf("%s(%s)", ts, vals[v.L[0]]), vals[v.L[0]], vals[v.L[0]] != ""
		}
	case *types.Slice:
		if b, ok := u.Elem().Underlying().(*types.Basic); ok && b.Kind() == types.Uint8 {
			n := atoiSafe(vals[v.L[2]])
			off := atoiSafe(vals[v.L[1]])
			if vals[v.L[0]] == "0" {
				return fmt.Sprintf("%s(nil)", ts), nil, true
			}
			if n > maxReplayLen {
				return "", fmt.Sprintf("byte slice of length %d", n), false
			}
			bs := make([]byte, n)
			for i := range bs {
				bs[i] = byte(atoiSafe(vals[fmt.Sprintf("(select (select H0_E_uint8_0 %s) %d)", v.L[0], off+i)]))
			}
			return fmt.Sprintf("%s(%q)", ts, string(bs)), fmt.Sprintf("%x", bs), true
		}
	}
	return "", "unsupported parameter type " + ts, false
}

// replayPanic calls fn with the given arguments inside its package and
// reports whether it panics.
func (eng *Engine) replayPanic(repo string, fn *ssa.Function, args []goArg) (bool, string) {
	if fn.Pkg == nil || fn.Signature.Recv() != nil || fn.Parent() != nil {
		return false, "no generic adapter for methods / closures"
	}
	pkg := fn.Pkg.Pkg
	dir := filepath.Join(repo, strings.TrimPrefix(strings.TrimPrefix(pkg.Path(), eng.modulePath), "/"))
	tmp, err := os.MkdirTemp("", "govc-replay-")
	if err != nil {
		return false, err.Error()
	}
	defer os.RemoveAll(tmp)
	var b bytes.Buffer
	fmt.Fprintf(&b, "package %s\n\nimport \"testing\"\n\n", pkg.Name())
	fmt.Fprintf(&b, "func TestGovcReplay(t *testing.T) {\n\tdefer func() {\n\t\tif r := recover(); r != nil {\n\t\t\tt.Fatalf(\"GOVC-REPLAY-PANIC: %%v\", r)\n\t\t}\n\t}()\n")
	var names []string
	for i, a := range args {
		fmt.Fprintf(&b, "\ta%d := %s\n", i, stripPkgQual(a.Expr, pkg.Name()))
		names = append(names, fmt.Sprintf("a%d", i))
	}
	blanks := make([]string, fn.Signature.Results().Len())
	for i := range blanks {
		blanks[i] = "_"
	}
	lhs := ""
	if len(blanks) > 0 {
		lhs = strings.Join(blanks, ", ") + " = "
	}
	fmt.Fprintf(&b, "\t%s%s(%s)\n}\n", lhs, fn.Name(), strings.Join(names, ", "))
	testFile := filepath.Join(tmp, "zz_govc_replay_test.go")
	os.WriteFile(testFile, b.Bytes(), 0o644)
	ov := map[string]map[string]string{"Replace": {filepath.Join(dir, "zz_govc_replay_test.go"): testFile}}
	ovData, _ := json.Marshal(ov)
	ovFile := filepath.Join(tmp, "overlay.json")
	os.WriteFile(ovFile, ovData, 0o644)
	ctx, cancel := context.WithTimeout(context.Background(), 120*time.Second)
	defer cancel()
	cmd := exec.CommandContext(ctx, "go", "test", "-overlay", ovFile, "-vet=off", "-count=1", "-timeout", "60s", "-run", "^TestGovcReplay$", ".")
	cmd.Dir = dir
	cmd.Env = append(os.Environ(), "GOFLAGS=-mod=mod", "GOPROXY=off", "GOSUMDB=off", "GOTOOLCHAIN=local")
	out, _ := cmd.CombinedOutput()
	s := string(out)
	return strings.Contains(s, "GOVC-REPLAY-PANIC"), b.String() + "\n--- output ---\n" + s
}

func stripPkgQual(expr, pkg string) string {
	return strings.ReplaceAll(expr, pkg+".", "")
}
