package main

// Environment trace (envlog), environment interface calls, lock discipline.

import (
	"fmt"
	"go/token"
	"go/types"
	"strings"
)

// envlog is three ghost components: envlog|len : Int, envlog|kind : Array Int Int
// (method id of entry i), envlog|arg : Array Int (Array Int Int) (scalar
// arguments and results of entry i: arg k at index k, result k at index 16+k).

func (eng *Engine) envKind(name string) int {
	if eng.envKinds == nil {
		eng.envKinds = map[string]int{}
	}
	if k, ok := eng.envKinds[name]; ok {
		return k
	}
	k := len(eng.envKinds) + 1
	eng.envKinds[name] = k
	return k
}

func (ex *Exec) envLen(st *State) string {
	if t, ok := st.heap["envlog|len"]; ok {
		return t
	}
	ex.compSort["envlog|len"] = sInt
	n := ex.sc.global("H0_envlog_len", sInt)
	if !ex.envLenInit {
		ex.envLenInit = true
		ex.sc.axiom(mkCmp(">=", n, "0"))
	}
	return n
}

// logEnv appends an entry for an environment call.
func (ex *Exec) logEnv(st *State, reach, name string, args []Val) string {
	n := ex.envLen(st)
	kindC := ex.comp(st, "envlog|kind", sArr(sInt, sInt))
	argC := ex.comp(st, "envlog|arg", sArr(sInt, sArr(sInt, sInt)))
	k := ex.eng.envKind(name)
	ex.setComp(st, "envlog|kind", sArr(sInt, sInt), mkStore(kindC, n, num(int64(k))))
	row := mkSelect(argC, n)
	idx := 0
	snap := false
	for _, a := range args {
		la := a
		if a.LV != nil || a.Fn != nil {
			la = ex.lower(a)
		}
		if a.T == nil {
			continue
		}
		leaves := flatten(a.T)
		if len(leaves) != len(la.L) {
			continue
		}
		for i, l := range leaves {
			if idx >= 16 {
				break
			}
			t := la.L[i]
			if l.Kind == lkSliceRef && !snap && i+1 < len(la.L) {
				if sl, ok := l.T.Underlying().(*types.Slice); ok {
					if b, ok := sl.Elem().Underlying().(*types.Basic); ok && b.Kind() == types.Uint8 {
						// snapshot of the first []byte argument at the time of the call
						snap = true
						bt := types.Typ[types.Uint8]
						ec := ex.comp(st, compE(bt, 0), sArr(sInt, sArr(sInt, sInt)))
						bc := ex.comp(st, "envlog|bytes", sArr(sInt, sArr(sInt, sInt)))
						ex.setComp(st, "envlog|bytes", sArr(sInt, sArr(sInt, sInt)), mkStore(bc, n, mkSelect(ec, t)))
						oc := ex.comp(st, "envlog|boff", sArr(sInt, sInt))
						ex.setComp(st, "envlog|boff", sArr(sInt, sInt), mkStore(oc, n, la.L[i+1]))
						ex.noteWrite("envlog|bytes", "*")
						ex.noteWrite("envlog|boff", "*")
					}
				}
			}
			switch {
			case l.Sort == sInt:
			case l.Sort == sBool:
				t = mkIte(t, "1", "0")
			case l.Sort == sStr:
				ex.sc.fun("box_str", []string{sStr}, sInt)
				t = app("box_str", t)
			default:
				idx++
				continue
			}
			row = mkStore(row, num(int64(idx)), t)
			idx++
		}
	}
	ex.setComp(st, "envlog|arg", sArr(sInt, sArr(sInt, sInt)), mkStore(argC, n, row))
	st.heap["envlog|len"] = ex.sc.define("envlen", sInt, mkAdd(n, "1"))
	ex.noteWrite("envlog|len", "*")
	ex.noteWrite("envlog|kind", "*")
	ex.noteWrite("envlog|arg", "*")
	return n
}

// logEnvResults records scalar results of entry i at indices 16+.
func (ex *Exec) logEnvResults(st *State, entry string, res []Val) {
	argC := ex.comp(st, "envlog|arg", sArr(sInt, sArr(sInt, sInt)))
	row := mkSelect(argC, entry)
	idx := 16
	for _, r := range res {
		if r.T == nil {
			continue
		}
		leaves := flatten(r.T)
		for i, l := range leaves {
			if l.Sort == sInt && idx < 32 && i < len(r.L) {
				row = mkStore(row, num(int64(idx)), r.L[i])
			}
			idx++
		}
	}
	// Snapshot of the first element of a returned slice of structs, taken at the
	// time of the call (slots 24+: one per leaf of the element, in flatten order;
	// for each []byte leaf the slot after the last leaf onwards holds the
	// little-endian 32-bit word at the start of those bytes). Later environment
	// calls may overwrite the buffers; the snapshot in the trace does not change.
	if len(res) > 0 && res[0].T != nil {
		if sl, ok := res[0].T.Underlying().(*types.Slice); ok && len(res[0].L) >= 2 {
			if _, ok := sl.Elem().Underlying().(*types.Struct); ok {
				ls := flatten(sl.Elem())
				extra := 24 + len(ls)
				for k, l := range ls {
					if len(l.Dims) != 0 {
						continue
					}
					v := mkSelect(ex.elemArr(st, sl.Elem(), k, res[0].L[0]), res[0].L[1])
					if l.Sort == sInt {
						row = mkStore(row, num(int64(24+k)), v)
					}
					if l.Kind == lkSliceRef && k+1 < len(ls) {
						if bs, ok := l.T.Underlying().(*types.Slice); ok {
							if b, ok := bs.Elem().Underlying().(*types.Basic); ok && b.Kind() == types.Uint8 {
								bytes := mkSelect(ex.comp(st, compE(types.Typ[types.Uint8], 0), sArr(sInt, sArr(sInt, sInt))), v)
								boff := mkSelect(ex.elemArr(st, sl.Elem(), k+1, res[0].L[0]), res[0].L[1])
								row = mkStore(row, num(int64(extra)), composeLE(bytes, boff, 4))
								extra++
								// ... and all of those bytes (envrbyte)
								rb := ex.comp(st, "envlog|rbytes", sArr(sInt, sArr(sInt, sInt)))
								ex.setComp(st, "envlog|rbytes", sArr(sInt, sArr(sInt, sInt)), mkStore(rb, entry, bytes))
								ro := ex.comp(st, "envlog|rboff", sArr(sInt, sInt))
								ex.setComp(st, "envlog|rboff", sArr(sInt, sInt), mkStore(ro, entry, boff))
								ex.noteWrite("envlog|rbytes", "*")
								ex.noteWrite("envlog|rboff", "*")
							}
						}
					}
				}
			}
		}
	}
	ex.setComp(st, "envlog|arg", sArr(sInt, sArr(sInt, sInt)), mkStore(argC, entry, row))
}

// envCallSpec: call of a declared environment interface method.
func (ex *Exec) envCallSpec(fr *Frame, st *State, reach, name string, env *EnvSpec, recv Val, sig *types.Signature, args []Val, pos token.Pos) Val {
	ex.assumedUsed["env interface: "+name] = true
	ex.lockFreeAtEnv(fr, st, reach, name, pos)
	pre := st.clone()
	entry := ex.logEnv(st, reach, name, args)
	for _, a := range args {
		ex.markEnvOwned(st, a)
	}
	senv := &SpecEnv{ex: ex, cur: st, old: pre, vars: map[string]Val{}, pkg: ex.pkgOf(fr.fn), qn: &ex.qcounter}
	for i := 0; i < sig.Params().Len() && i < len(args); i++ {
		if nm := sig.Params().At(i).Name(); nm != "" {
			senv.vars[nm] = args[i]
		}
		senv.vars[fmt.Sprintf("arg%d", i)] = args[i]
	}
	for _, m := range env.Modifies {
		for _, mi := range ex.safeEvalModifies(senv, m, name) {
			old := ex.comp(st, mi.comp, mi.srt)
			nw := ex.sc.fresh("env_"+trunc(sanitize(mi.comp), 20), mi.srt)
			if mi.ref == "" {
				if mi.envOnly {
					// only environment-owned arrays may change
					own := ex.comp(st, "envowned", sArr(sInt, sBool))
					ex.sc.assert(fmt.Sprintf("(forall ((r Int)) (! (=> (not (select %s r)) (= (select %s r) (select %s r))) :pattern ((select %s r))))", own, nw, old, nw))
				}
				st.heap[mi.comp] = nw
				ex.noteWrite(mi.comp, "*")
			} else {
				ex.setComp(st, mi.comp, mi.srt, mkStore(old, mi.ref, mkSelect(nw, mi.ref)))
				ex.noteWrite(mi.comp, mi.ref)
			}
		}
	}
	res := ex.freshResults(st, sig, sanitize(name))
	ex.logEnvResults(st, entry, res)
	for i, r := range res {
		senv.vars[fmt.Sprintf("result%d", i)] = r
		if nm := sig.Results().At(i).Name(); nm != "" {
			senv.vars[nm] = r
		}
	}
	if len(res) == 1 {
		senv.vars["result"] = res[0]
	}
	senv.vars["entry"] = mathInt(entry)
	for i, cl := range env.Assumes {
		g := senv.evalBool(cl.E, fmt.Sprintf("env %s assume #%d", name, i+1))
		ex.sc.assert(mkImp(reach, g))
	}
	// results handed out by the environment are environment-owned, and so are
	// the byte arrays referenced from the elements of a returned slice of structs.
	// What the environment hands out is something it already owned or something
	// it allocated itself: never an object private to the verified code.
	ownPre := ex.comp(pre, "envowned", sArr(sInt, sBool))
	allocPre := ex.comp(pre, compAlloc, sArr(sInt, sBool))
	envRef := func(r string) string {
		return mkOr(mkEq(r, "0"), mkSelect(ownPre, r), mkNot(mkSelect(allocPre, r)))
	}
	for _, r := range res {
		if r.T != nil {
			ls := flatten(r.T)
			if len(ls) == len(r.L) {
				for i, l := range ls {
					if len(l.Dims) == 0 && (l.Kind == lkSliceRef || (l.Kind == lkRef && l.PtrTo != nil)) {
						ex.sc.assert(envRef(r.L[i]))
					}
				}
			}
		}
		ex.markEnvOwned(st, r)
		if r.T == nil {
			continue
		}
		if sl, ok := r.T.Underlying().(*types.Slice); ok {
			for k, l := range flatten(sl.Elem()) {
				if l.Kind == lkSliceRef {
					own := ex.comp(st, "envowned", sArr(sInt, sBool))
					arr := ex.elemArr(st, sl.Elem(), k, r.L[0])
					ex.sc.assert(fmt.Sprintf("(forall ((i Int)) (! (=> (and (<= %s i) (< i (+ %s %s))) (and (or (= (select %s i) 0) (select %s (select %s i))) (or (= (select %s i) 0) (select %s (select %s i)) (not (select %s (select %s i)))))) :pattern ((select %s i))))",
						r.L[1], r.L[1], r.L[2], arr, own, arr, arr, ownPre, arr, allocPre, arr, arr))
				}
			}
		}
	}
	return packResults(sig, res)
}

// markEnvOwned: arrays and objects handed to / out by the environment (one
// level: the slices and pointers among the leaves of v) become environment-owned.
func (ex *Exec) markEnvOwned(st *State, v Val) {
	if v.T == nil || v.LV != nil || v.Fn != nil {
		return
	}
	leaves := flatten(v.T)
	if len(leaves) != len(v.L) {
		return
	}
	for i, l := range leaves {
		if len(l.Dims) > 0 {
			continue
		}
		if l.Kind == lkSliceRef || (l.Kind == lkRef && l.PtrTo != nil) {
			own := ex.comp(st, "envowned", sArr(sInt, sBool))
			ex.setComp(st, "envowned", sArr(sInt, sBool), mkStore(own, v.L[i], "true"))
			ex.noteWrite("envowned", "*")
		}
	}
}

// ---------------------------------------------------------------------------
// lock discipline

// guarded components: component name -> lock (type key, leaf) that must be held.
type guardInfo struct {
	writesOnly bool
	lockRoot types.Type
	lockLeaf int
	tags     []string
	desc     string
}

func (eng *Engine) buildGuards(ex *Exec) map[string]guardInfo {
	out := map[string]guardInfo{}
	ex.atomicOnly = map[string][]string{}
	for _, g := range eng.specs.AtomicOnly {
		pkg := eng.pkgBySuffix(g.Pkg)
		if pkg == nil {
			continue
		}
		for _, f := range g.Fields {
			ft, lo, cnt, ok := resolveTypeFieldRange(pkg, f)
			if !ok {
				ex.notes = append(ex.notes, "contract error: atomic_only: cannot resolve field "+f)
				continue
			}
			for k := lo; k < lo+cnt; k++ {
				ex.atomicOnly[compH(ft, k)] = g.Tags
			}
		}
	}
	for _, g := range eng.specs.Guards {
		pkg := eng.pkgBySuffix(g.Pkg)
		if pkg == nil {
			continue
		}
		lt, lleaf, ok := resolveTypeField(pkg, g.Lock)
		if !ok {
			ex.notes = append(ex.notes, "contract error: guarded_by: cannot resolve lock "+g.Lock)
			continue
		}
		for _, f := range g.Fields {
			wo := strings.HasSuffix(f, "!w")
			f = strings.TrimSuffix(f, "!w")
			ft, lo, cnt, ok := resolveTypeFieldRange(pkg, f)
			if !ok {
				ex.notes = append(ex.notes, "contract error: guarded_by: cannot resolve field "+f)
				continue
			}
			for k := lo; k < lo+cnt; k++ {
				out[compH(ft, k)] = guardInfo{lockRoot: lt, lockLeaf: lleaf, tags: g.Tags, desc: f + " guarded by " + g.Lock, writesOnly: wo}
			}
		}
	}
	return out
}

func (eng *Engine) pkgBySuffix(suffix string) *types.Package {
	path := eng.modulePath
	if suffix != "" {
		path += "/" + suffix
	}
	for _, p := range eng.prog.AllPackages() {
		if p.Pkg.Path() == path {
			return p.Pkg
		}
	}
	return nil
}

func resolveTypeField(pkg *types.Package, s string) (types.Type, int, bool) {
	t, lo, _, ok := resolveTypeFieldRange(pkg, s)
	return t, lo, ok
}

func resolveTypeFieldRange(pkg *types.Package, s string) (types.Type, int, int, bool) {
	parts := strings.Split(s, ".")
	if len(parts) < 2 {
		return nil, 0, 0, false
	}
	o := pkg.Scope().Lookup(parts[0])
	tn, ok := o.(*types.TypeName)
	if !ok {
		return nil, 0, 0, false
	}
	root := tn.Type()
	cur := root
	lo, cnt := 0, len(flatten(root))
	for _, fname := range parts[1:] {
		st, ok := cur.Underlying().(*types.Struct)
		if !ok {
			return nil, 0, 0, false
		}
		found := false
		for i := 0; i < st.NumFields(); i++ {
			if st.Field(i).Name() == fname {
				off, c := fieldLeafRange(st, i)
				lo += off
				cnt = c
				cur = st.Field(i).Type()
				found = true
				break
			}
		}
		if !found {
			return nil, 0, 0, false
		}
	}
	return root, lo, cnt, true
}

// lockFreeAtEnv: the mutexes named by the unit's "lockfree" clause must not be
// held while calling out (re-entrancy / deadlock freedom).
func (ex *Exec) lockFreeAtEnv(fr *Frame, st *State, reach, name string, pos token.Pos) {
	ex.lockFreeOblige(fr, st, reach, pos, "not held while calling the environment ("+name+")")
}

func (ex *Exec) lockAtReturn(fr *Frame, st *State, reach string, pos token.Pos) {
	ex.lockFreeOblige(fr, st, reach, pos, "not held at return")
}

func (ex *Exec) lockFreeOblige(fr *Frame, st *State, reach string, pos token.Pos, what string) {
	top := ex.topFrame
	if !ex.lockChecks || top == nil || top.ctr == nil || len(top.ctr.LockFree) == 0 {
		return
	}
	env := ex.newSpecEnv(top.fn, st, top.entry)
	ex.bindParams(env, top.fn, top.ctr, top.params)
	for _, n := range top.ctr.LockFree {
		held := env.evalBool(&Node{Kind: "call", Args: []*Node{{Kind: "ident", Name: "held"}, n}}, "lockfree clause")
		ex.oblige(fr, "lock", top.ctr.LockTags, pos, "mutex "+nodeText(n)+" "+what, reach, mkNot(held))
	}
}

func (ex *Exec) locksSeen(st *State) []string { return nil }

// guardCheck is called on every access to a heap component.
func (ex *Exec) guardCheck(fr *Frame, st *State, reach string, comp, ref string, pos token.Pos, write bool) {
	if !ex.lockChecks || ex.guards == nil {
		return
	}
	if tags, only := ex.atomicOnly[comp]; only && !ex.inAtomic {
		ex.oblige(fr, "lock", tags, pos, "field is accessed through sync/atomic only", reach, mkNot(mkSelect(ex.topFrame.entryAlloc, ref)))
	}
	g, ok := ex.guards[comp]
	if !ok || (g.writesOnly && !write) {
		return
	}
	// constructor exemption: objects allocated in this call are thread-local
	top := ex.topFrame
	lockComp := compH(g.lockRoot, g.lockLeaf)
	ex.lockComps[lockComp] = true
	held := mkSelect(ex.comp(st, lockComp, sArr(sInt, sBool)), ex.lockOwner(g, comp, ref))
	cond := held
	if top != nil && top.entryAlloc != "" {
		cond = mkOr(held, mkNot(mkSelect(top.entryAlloc, ref)))
	}
	what := "read"
	if write {
		what = "write"
	}
	ex.oblige(fr, "lock", g.tags, pos, what+" of "+g.desc+" only with the lock held", reach, cond)
}

// lockOwner maps the object whose field is accessed to the object holding the lock
// (same object when lock and field are in the same struct type).
func (ex *Exec) lockOwner(g guardInfo, comp, ref string) string {
	if strings.HasPrefix(comp, "H|"+typeKey(g.lockRoot)+"|") {
		return ref
	}
	// field of another type (event.* guarded by eventList.Mutex): the lock
	// instance is the one named by the unit's lockfree clause
	if ex.unitLockRef != "" {
		return ex.unitLockRef
	}
	name := "lockowner_" + sanitize(typeKey(g.lockRoot))
	ex.sc.fun(name, []string{sInt}, sInt)
	return app(name, ref)
}

func (ex *Exec) noteLockComp(lv *LValue) {
	if lv.Kind != lvHeap {
		return
	}
	nav := navigate(lv.Root, lv.Path)
	ex.lockComps[compH(lv.Root, nav.lo)] = true
}

func (ex *Exec) atomicAccess(lv *LValue) {
	if lv.Kind == lvHeap {
		nav := navigate(lv.Root, lv.Path)
		ex.atomicCells[compH(lv.Root, nav.lo)] = true
	}
}

func (ex *Exec) allocLimit() string {
	if ex.allocLimitTerm != "" {
		return ex.allocLimitTerm
	}
	return "1048576"
}

// assumeSorted is refined by the reassembler contracts (sortedness of
// sort.Sort's result under a strict weak order); see lemmas.
func (ex *Exec) assumeSorted(st *State, reach string, v Val, nw string) {
	// assumed contract of sort.Sort: pred sortPost_<type>(s, w), instantiated at
	// the logical variable w of the unit's contract (if it has one)
	n, ok := types.Unalias(v.T).(*types.Named)
	if !ok || ex.topFrame == nil {
		return
	}
	pd := ex.eng.specs.Preds["sortPost_"+n.Obj().Name()]
	w, hasW := ex.topFrame.logical["w"]
	if pd == nil || !hasW || len(pd.Params) != 2 {
		return
	}
	env := ex.newSpecEnv(ex.topFrame.fn, st, nil)
	env.vars[pd.Params[0].Name] = v
	env.vars[pd.Params[1].Name] = w
	g := env.evalBool(pd.Body, "sortPost_"+n.Obj().Name())
	ex.sc.assert(mkImp(reach, g))
	ex.assumedUsed["sort.Sort leaves no inversion w.r.t. Less when all elements lie in one window (pred sortPost_"+n.Obj().Name()+")"] = true
}

// envlogFrame: the ghost trace is append-only (only logEnv writes it, at index
// len), so after any havoc of the trace every entry below the earlier length is
// unchanged.
func (ex *Exec) envlogFrame(before, after *State) {
	n0, ok := before.heap["envlog|len"]
	if !ok {
		n0 = ex.sc.global("H0_envlog_len", sInt)
	}
	for _, c := range []string{"envlog|kind", "envlog|arg", "envlog|bytes", "envlog|boff", "envlog|rbytes", "envlog|rboff"} {
		srt, known := ex.compSort[c]
		if !known {
			continue
		}
		o := ex.comp(before, c, srt)
		n := ex.comp(after, c, srt)
		if o == n {
			continue
		}
		ex.sc.assert(fmt.Sprintf("(forall ((i Int)) (! (=> (and (<= 0 i) (< i %s)) (= (select %s i) (select %s i))) :pattern ((select %s i))))", n0, n, o, n))
	}
}
