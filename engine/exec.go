package main

// Block-level symbolic executor over go/ssa (NaiveForm). Each basic block gets
// a reachability condition; values are defined by equations; loops are cut at
// their headers with invariants; obligations are checked against the script
// prefix that precedes them.

import (
	"fmt"
	"go/token"
	"go/types"
	"sort"
	"strings"

	"golang.org/x/tools/go/ssa"
)

type Obligation struct {
	Name   string
	Kind   string
	Tags   []string
	Pos    string
	Desc   string
	Unit   string
	Goal   string
	Prefix int
	sc     *Script
	IsSat  bool // reach obligations: must be satisfiable
	Info   bool // informational (never a failure): reported in the evidence coverage
	Res    SolveResult
	Inputs []cexInput
	Raw    []string // complete query (lemmas, tables)
}

type cexInput struct {
	Name string
	V    Val
}

type deferredCall struct {
	common *ssa.CallCommon
	args   []Val
	fnVal  Val
	instr  ssa.Instruction
	flag   *cellKey // defer outside the entry block: ghost cell "this defer statement was executed"
}

type Frame struct {
	id      int
	fn      *ssa.Function
	regs    map[ssa.Value]Val
	parent  *Frame
	depth   int
	defers  []deferredCall
	entry   *State
	params  []Val
	logical map[string]Val
	ctr     *Contract
	bind    []Val // closure bindings (free variables)
	top     bool
	site    string
	// ghost
	entryAlloc string
}

type writeRec struct {
	comp  string
	ref   string
	reach string // reach of the instruction that wrote (facts about ref are guarded by it)
}

type writeLog struct {
	recs []writeRec
}

type splitRec struct{ ref, src, sep string }

type Exec struct {
	eng          *Engine
	sc           *Script
	compSort     map[string]string
	lvIntern     map[string]string
	lvInternList []string
	lvBack       map[string]*LValue
	fnIntern     map[string]string
	fnBack       map[string]*Closure
	frameCounter int
	record       bool
	obls         []*Obligation
	wlog         *writeLog
	ordinals     map[string]int
	unit         string
	notes        []string
	assumedUsed  map[string]bool
	inlinedFns   map[string]bool
	modularFns   map[string]bool
	depthLimit   int
	topFrame     *Frame
	inputs       []cexInput
	envSeq       int
	iterCount    int
	hiddenCells  map[cellKey]types.Type
	sweep        bool // safety-only unit: entry preconditions minimal
	propTags     map[string]bool
	houdiniStats []string
	loopDepth    int
	pathTags     []string

	blockReach      map[blockKey]string
	views           map[string]*viewInfo
	boxed           map[string]Val
	mapIterModified map[cellKey]bool
	loopCtxs        map[loopKey]*loopCtx
	trialBack       func(h *ssa.BasicBlock, cond string, s *State) bool
	lockChecks      bool
	lockTags        []string
	lockComps       map[string]bool
	guards          map[string]guardInfo
	envLenInit      bool
	envOwnedOnly    bool
	qcounter        int
	sentinelInit    map[string]bool
	trimBounds      map[string][2]string
	clockReads      []string
	submatches      []submatchRec
	sorts           []sortRec
	splits          []splitRec // results of strings.Split in this execution
	curInstr        ssa.Instruction
	curFrame        *Frame
	curReach        string
	atomicCells     map[string]bool
	freshRefs       map[string]bool
	allocLimitTerm  string
	flagRegs        map[string][]*LValue
	flagNames       []string          // names of the registered flags (same order as flagRegs["*"])
	flagSet         map[string]string // flag name -> ghost Bool "given on the line" (after Parse)
	houdiniCache    map[string]map[string]bool // shared between trial clones
	hinted          map[string]int             // keys whose cache entry came from the hints file (size of the hinted set)
	hintPrefix      string
	unitTags        []string
	interfere       bool // atomic_only locations change arbitrarily between this goroutine's accesses
	globalsInit     map[string]bool
	atomicOnly      map[string][]string
	inAtomic        bool
	unitLockRef     string
	loopKinds       []string
	sortPost        func(ex *Exec, st *State, reach string, v Val, nw string)
}

func newExec(eng *Engine, unit string) *Exec {
	ex := &Exec{
		eng: eng, sc: newScript(), compSort: map[string]string{},
		lvIntern: map[string]string{}, lvBack: map[string]*LValue{},
		fnIntern: map[string]string{}, fnBack: map[string]*Closure{},
		record: true, ordinals: map[string]int{}, unit: unit,
		assumedUsed: map[string]bool{}, inlinedFns: map[string]bool{}, modularFns: map[string]bool{},
		depthLimit: 8, hiddenCells: map[cellKey]types.Type{},
		views: map[string]*viewInfo{}, boxed: map[string]Val{}, mapIterModified: map[cellKey]bool{},
		loopCtxs: map[loopKey]*loopCtx{}, lockComps: map[string]bool{}, sentinelInit: map[string]bool{},
		flagRegs: map[string][]*LValue{}, houdiniCache: map[string]map[string]bool{}, hinted: map[string]int{}, globalsInit: map[string]bool{}, trimBounds: map[string][2]string{}, atomicCells: map[string]bool{}, freshRefs: map[string]bool{},
	}
	return ex
}

// cloneForTrial returns an executor that shares nothing mutable with ex but
// continues from the same script prefix; used for discovery and Houdini runs.
func (ex *Exec) cloneForTrial() *Exec {
	n := *ex
	sc := *ex.sc
	sc.lines = ex.sc.lines[:len(ex.sc.lines):len(ex.sc.lines)]
	sc.decls = make(map[string]string, len(ex.sc.decls))
	for k, v := range ex.sc.decls {
		sc.decls[k] = v
	}
	sc.strLits = make(map[string]string, len(ex.sc.strLits))
	for k, v := range ex.sc.strLits {
		sc.strLits[k] = v
	}
	sc.strList = append([]string(nil), ex.sc.strList...)
	n.sc = &sc
	n.compSort = ex.compSort // sorts are a function of the component name: shared
	n.lvIntern = copyMap(ex.lvIntern)
	n.lvInternList = append([]string(nil), ex.lvInternList...)
	n.lvBack = make(map[string]*LValue, len(ex.lvBack))
	for k, v := range ex.lvBack {
		n.lvBack[k] = v
	}
	n.fnIntern = copyMap(ex.fnIntern)
	n.fnBack = make(map[string]*Closure, len(ex.fnBack))
	for k, v := range ex.fnBack {
		n.fnBack[k] = v
	}
	n.ordinals = map[string]int{}
	for k, v := range ex.ordinals {
		n.ordinals[k] = v
	}
	n.hiddenCells = map[cellKey]types.Type{}
	for k, v := range ex.hiddenCells {
		n.hiddenCells[k] = v
	}
	n.views = map[string]*viewInfo{}
	for k, v := range ex.views {
		n.views[k] = v
	}
	n.boxed = map[string]Val{}
	for k, v := range ex.boxed {
		n.boxed[k] = v
	}
	n.mapIterModified = map[cellKey]bool{}
	for k, v := range ex.mapIterModified {
		n.mapIterModified[k] = v
	}
	n.loopCtxs = map[loopKey]*loopCtx{}
	for k, v := range ex.loopCtxs {
		n.loopCtxs[k] = v
	}
	n.lockComps = map[string]bool{}
	for k, v := range ex.lockComps {
		n.lockComps[k] = v
	}
	n.sentinelInit = map[string]bool{}
	for k, v := range ex.sentinelInit {
		n.sentinelInit[k] = v
	}
	n.trimBounds = map[string][2]string{}
	for k, v := range ex.trimBounds {
		n.trimBounds[k] = v
	}
	n.blockReach = map[blockKey]string{}
	for k, v := range ex.blockReach {
		n.blockReach[k] = v
	}
	n.globalsInit = map[string]bool{}
	for k, v := range ex.globalsInit {
		n.globalsInit[k] = v
	}
	n.freshRefs = map[string]bool{}
	for k, v := range ex.freshRefs {
		n.freshRefs[k] = v
	}
	n.assumedUsed = ex.assumedUsed
	n.record = false
	n.obls = nil
	n.notes = nil
	n.sc.defOf = make(map[string]string, len(ex.sc.defOf))
	for k, v := range ex.sc.defOf {
		n.sc.defOf[k] = v
	}
	return &n
}

func copyMap(m map[string]string) map[string]string {
	n := make(map[string]string, len(m))
	for k, v := range m {
		n[k] = v
	}
	return n
}

func (ex *Exec) noteWrite(comp, ref string) {
	if ex.wlog != nil {
		r := ex.curReach
		if r == "" {
			r = "true"
		}
		ex.wlog.recs = append(ex.wlog.recs, writeRec{comp, ref, r})
	}
}

func (ex *Exec) posOf(p token.Pos) string {
	if !p.IsValid() {
		return ""
	}
	pp := ex.eng.prog.Fset.Position(p)
	return fmt.Sprintf("%s:%d", strings.TrimPrefix(pp.Filename, "/repo/"), pp.Line)
}

// oblige records a proof obligation "reach => cond" and then assumes it.
func (ex *Exec) oblige(fr *Frame, kind string, tags []string, pos token.Pos, desc, reach, cond string) {
	goal := mkImp(reach, cond)
	if goal == "true" {
		return
	}
	if ex.record {
		fnName := shortFn(fr.fn)
		key := fnName + "/" + kind
		if len(tags) > 0 {
			key += "[" + strings.Join(tags, ",") + "]"
		}
		ex.ordinals[key]++
		name := fmt.Sprintf("%s#%d", key, ex.ordinals[key])
		if !fr.top {
			name = ex.unit + "->" + name
		}
		ex.obls = append(ex.obls, &Obligation{
			Name: name, Kind: kind, Tags: tags, Pos: ex.posOf(pos), Desc: desc, Unit: ex.unit,
			Goal: goal, Prefix: ex.sc.pos(), sc: ex.sc, Inputs: ex.inputs,
		})
	}
	ex.sc.assert(goal)
}

func (ex *Exec) obligeSat(fr *Frame, kind string, desc, cond string) {
	if !ex.record {
		return
	}
	fnName := shortFn(fr.fn)
	key := fnName + "/" + kind
	ex.ordinals[key]++
	ex.obls = append(ex.obls, &Obligation{
		Name: fmt.Sprintf("%s#%d", key, ex.ordinals[key]), Kind: kind, Desc: desc, Unit: ex.unit,
		Goal: cond, Prefix: ex.sc.pos(), sc: ex.sc, IsSat: true,
	})
}

func shortFn(f *ssa.Function) string {
	s := f.String()
	s = strings.ReplaceAll(s, "github.com/elastic/go-libaudit/v2/", "")
	s = strings.ReplaceAll(s, "github.com/elastic/go-libaudit/v2", "libaudit")
	return s
}

// ---------------------------------------------------------------------------
// values

func (ex *Exec) freshVal(st *State, t types.Type, hint string) Val {
	leaves := flatten(t)
	v := Val{T: t, L: make([]string, len(leaves))}
	for i, l := range leaves {
		v.L[i] = ex.sc.fresh(hint+l.Name, l.Sort)
		ex.sc.assert(leafRangeAssumption(l, v.L[i]))
	}
	if st != nil {
		ex.assumeWF(st, v)
	}
	return v
}

func (ex *Exec) zeroVal(t types.Type) Val {
	leaves := flatten(t)
	v := Val{T: t, L: make([]string, len(leaves))}
	for i, l := range leaves {
		v.L[i] = zeroLeaf(l)
	}
	return v
}

func (ex *Exec) constVal(c *ssa.Const) Val {
	t := c.Type()
	if c.Value == nil {
		return ex.zeroVal(t)
	}
	switch u := t.Underlying().(type) {
	case *types.Basic:
		switch {
		case u.Info()&types.IsBoolean != 0:
			if c.Value.String() == "true" {
				return scalar(t, "true")
			}
			return scalar(t, "false")
		case u.Info()&types.IsInteger != 0:
			if bi, ok := constBig(c); ok {
				return scalar(t, numBig(bi))
			}
			panic(unsupported("integer constant " + c.String()))
		case u.Info()&types.IsString != 0:
			return scalar(t, ex.strConst(constString(c)))
		case u.Info()&types.IsFloat != 0:
			return scalar(t, "0.0")
		}
	}
	panic(unsupported("constant " + c.String()))
}

func (ex *Exec) strConst(s string) string {
	if s == "" {
		return "STR_EMPTY"
	}
	return ex.sc.strLit(s)
}

func (ex *Exec) get(fr *Frame, v ssa.Value) Val {
	switch x := v.(type) {
	case *ssa.Const:
		return ex.constVal(x)
	case *ssa.Function:
		return Val{T: x.Type(), Fn: &Closure{Fn: x}}
	case *ssa.Global:
		return ex.globalPtr(x)
	case *ssa.Builtin:
		return Val{T: x.Type()}
	case *ssa.FreeVar:
		for i, fv := range fr.fn.FreeVars {
			if fv == x {
				return fr.bind[i]
			}
		}
		panic("free var not bound")
	}
	r, ok := fr.regs[v]
	if !ok {
		panic(fmt.Sprintf("use of undefined SSA value %s = %s in %s", v.Name(), v.String(), fr.fn))
	}
	return r
}

func (ex *Exec) globalPtr(g *ssa.Global) Val {
	name := "G_" + sanitize(g.Pkg.Pkg.Name()+"_"+g.Name())
	if !ex.globalsInit[name] {
		ex.globalsInit[name] = true
		ex.sc.global(name, sInt)
		ex.sc.axiom(mkCmp(">", name, "0"))
		// distinct globals have distinct references and are allocated initially
		a0 := ex.compInit(compAlloc, sArr(sInt, sBool))
		ex.sc.axiom(mkSelect(a0, name))
		for other := range ex.globalsInit {
			if other != name {
				ex.sc.axiom(mkNot(mkEq(name, other)))
			}
		}
	}
	return Val{T: g.Type(), L: []string{name}}
}

// ---------------------------------------------------------------------------
// function execution

type retRec struct {
	cond string
	st   *State
	vals []Val
}

type funcResult struct {
	reach string
	st    *State
	vals  []Val
}

func (ex *Exec) newFrame(fn *ssa.Function, parent *Frame) *Frame {
	ex.frameCounter++
	fr := &Frame{id: ex.frameCounter, fn: fn, regs: map[ssa.Value]Val{}, parent: parent}
	if parent != nil {
		fr.depth = parent.depth + 1
	}
	return fr
}

// execFunc runs fn's body from state st under reachability condition reach.
func (ex *Exec) execFunc(fr *Frame, st *State, reach string) funcResult {
	fn := fr.fn
	if len(fn.Blocks) == 0 {
		panic(unsupported("function without body: " + fn.String()))
	}
	for i, p := range fn.Params {
		fr.regs[p] = fr.params[i]
	}
	li := ex.eng.loopInfoFor(fn)
	// a defer statement outside the entry block (not in a loop) gets a ghost flag,
	// false until the statement is executed
	for _, b := range fn.Blocks[1:] {
		for _, ins := range b.Instrs {
			if d, ok := ins.(*ssa.Defer); ok {
				ck := cellKey{fr.id, ex.eng.hiddenAlloc(d)}
				st.cells[ck] = Val{GS: sBool, L: []string{"false"}}
				ex.hiddenCells[ck] = types.Typ[types.Bool]
			}
		}
	}
	in := map[*ssa.BasicBlock][]inEdge{}
	in[fn.Blocks[0]] = []inEdge{{reach, st}}
	var rets []retRec
	for _, b := range li.order {
		edges := in[b]
		if len(edges) == 0 {
			continue
		}
		delete(in, b)
		var breach string
		var bst *State
		if len(edges) == 1 {
			breach, bst = edges[0].cond, edges[0].st
			if len(b.Preds) > 1 {
				bst = bst.clone()
			}
		} else {
			breach, bst = ex.mergeStates(edges, fmt.Sprintf("%s_b%d", fn.Name(), b.Index))
		}
		if breach == "false" {
			continue
		}
		if lp := li.loops[b]; lp != nil {
			breach, bst = ex.enterLoop(fr, lp, breach, bst)
		}
		ex.noteBlockReach(fr, b, breach)
		ex.execBlock(fr, b, breach, bst, in, &rets, li)
	}
	// merge returns
	if fr.top {
		var cs []string
		for _, r := range rets {
			cs = append(cs, r.cond)
		}
		ex.obligeSat(fr, "reach", "some function exit is reachable under the assumed preconditions (vacuity guard)", mkOr(cs...))
	}
	if len(rets) == 0 {
		return funcResult{reach: "false", st: st}
	}
	if len(rets) == 1 {
		return funcResult{reach: rets[0].cond, st: rets[0].st, vals: rets[0].vals}
	}
	edges := make([]inEdge, len(rets))
	conds := make([]string, len(rets))
	for i, r := range rets {
		edges[i] = inEdge{r.cond, r.st}
		conds[i] = r.cond
	}
	oreach, ost := ex.mergeStates(edges, fn.Name()+"_ret")
	var vals []Val
	for k := range rets[0].vals {
		vs := make([]Val, len(rets))
		for i, r := range rets {
			vs[i] = r.vals[k]
		}
		vals = append(vals, ex.mergeVals(conds, vs, fmt.Sprintf("%s_r%d", fn.Name(), k)))
	}
	return funcResult{reach: oreach, st: ost, vals: vals}
}

func (ex *Exec) addEdge(fr *Frame, li *loopInfo, from, to *ssa.BasicBlock, cond string, st *State, in map[*ssa.BasicBlock][]inEdge) {
	if cond == "false" {
		return
	}
	if li.isBackEdge(from, to) {
		ex.backEdge(fr, li.loops[to], cond, st)
		return
	}
	in[to] = append(in[to], inEdge{cond, st})
}

func (ex *Exec) execBlock(fr *Frame, b *ssa.BasicBlock, reach string, st *State, in map[*ssa.BasicBlock][]inEdge, rets *[]retRec, li *loopInfo) {
	// assumptions made between instructions (terminators, specification loads at
	// returns and back edges) are guarded by the block's reach
	savedG := ex.sc.guard
	ex.sc.guard = reach
	defer func() { ex.sc.guard = savedG }()
	for _, ins := range b.Instrs {
		switch x := ins.(type) {
		case *ssa.DebugRef:
			continue
		case *ssa.If:
			c := ex.get(fr, x.Cond).term()
			ct := ex.sc.define("c", sBool, c)
			ex.addEdge(fr, li, b, b.Succs[0], ex.sc.define("e", sBool, mkAnd(reach, ct)), st, in)
			ex.addEdge(fr, li, b, b.Succs[1], ex.sc.define("e", sBool, mkAnd(reach, mkNot(ct))), st.clone(), in)
			return
		case *ssa.Jump:
			ex.addEdge(fr, li, b, b.Succs[0], reach, st, in)
			return
		case *ssa.Return:
			vals := make([]Val, len(x.Results))
			for i, r := range x.Results {
				vals[i] = ex.get(fr, r)
			}
			if fr.top {
				// informational: is this return reachable under the assumptions? (a
				// postcondition proved at an unreachable return says nothing)
				if fr.ctr != nil && len(fr.ctr.Ensures)+len(fr.ctr.Witness) > 0 {
					n := len(ex.obls)
					ex.obligeSat(fr, "reach-site", "return at "+ex.posOf(x.Pos())+" is reachable under the assumptions", reach)
					if len(ex.obls) > n {
						ex.obls[len(ex.obls)-1].Info = true
						ex.obls[len(ex.obls)-1].Pos = ex.posOf(x.Pos())
					}
				}
				ex.atReturn(fr, st, reach, vals, x.Pos())
			}
			*rets = append(*rets, retRec{reach, st, vals})
			return
		case *ssa.Panic:
			ex.oblige(fr, "panic", nil, x.Pos(), "explicit panic is unreachable", reach, "false")
			return
		default:
			ex.execInstr(fr, st, reach, ins)
		}
	}
}

// ---------------------------------------------------------------------------

func (ex *Exec) setReg(fr *Frame, v ssa.Value, val Val) {
	// name long terms to keep formulas small
	if val.LV == nil && val.Fn == nil && val.It == nil && val.Tup == nil {
		leaves := flatten(val.T)
		if len(leaves) == len(val.L) {
			copied := false
			for i, t := range val.L {
				if len(t) > 48 {
					if !copied {
						// never write into a leaf slice that a cell or another state may share
						val.L = append([]string(nil), val.L...)
						copied = true
					}
					val.L[i] = ex.sc.define(v.Name(), leaves[i].Sort, t)
				}
			}
		}
	}
	fr.regs[v] = val
}

func (ex *Exec) execInstr(fr *Frame, st *State, reach string, ins ssa.Instruction) {
	savedI, savedF, savedR, savedG := ex.curInstr, ex.curFrame, ex.curReach, ex.sc.guard
	defer func() { ex.curInstr, ex.curFrame, ex.curReach, ex.sc.guard = savedI, savedF, savedR, savedG }()
	ex.curInstr, ex.curFrame, ex.curReach = ins, fr, reach
	ex.sc.guard = reach
	switch x := ins.(type) {
	case *ssa.Alloc:
		ex.execAlloc(fr, st, x)
	case *ssa.Store:
		addr := ex.get(fr, x.Addr)
		val := ex.get(fr, x.Val)
		lv := ex.derefLV(fr, st, reach, addr, x.Pos())
		ex.checkFrame(fr, st, reach, lv, x.Pos())
		ex.store(st, lv, val)
	case *ssa.UnOp:
		ex.setReg(fr, x, ex.execUnOp(fr, st, reach, x))
	case *ssa.BinOp:
		ex.setReg(fr, x, ex.execBinOp(fr, st, reach, x))
	case *ssa.FieldAddr:
		base := ex.get(fr, x.X)
		lv := ex.derefLV(fr, st, reach, base, x.Pos())
		stt := lv.T.Underlying().(*types.Struct)
		n := *lv
		n.Path = append(append([]pathStep(nil), lv.Path...), pathStep{Field: x.Field})
		n.T = stt.Field(x.Field).Type()
		fr.regs[x] = Val{T: x.Type(), LV: &n}
	case *ssa.Field:
		base := ex.get(fr, x.X)
		stt := base.T.Underlying().(*types.Struct)
		off, cnt := fieldLeafRange(stt, x.Field)
		fr.regs[x] = Val{T: stt.Field(x.Field).Type(), L: base.L[off : off+cnt]}
	case *ssa.IndexAddr:
		ex.execIndexAddr(fr, st, reach, x)
	case *ssa.Index:
		ex.execIndex(fr, st, reach, x)
	case *ssa.Lookup:
		ex.execLookup(fr, st, reach, x)
	case *ssa.Slice:
		ex.execSlice(fr, st, reach, x)
	case *ssa.Call:
		r := ex.execCall(fr, st, reach, x.Common(), x, x.Pos())
		fr.regs[x] = r
	case *ssa.Defer:
		d := deferredCall{common: x.Common(), instr: x}
		if x.Block().Index != 0 {
			if ex.eng.loopInfoFor(fr.fn).inLoop(x.Block()) {
				panic(unsupported("defer inside a loop"))
			}
			ck := cellKey{fr.id, ex.eng.hiddenAlloc(x)}
			st.cells[ck] = Val{GS: sBool, L: []string{"true"}}
			d.flag = &ck
			for _, e := range fr.defers {
				if e.instr == x {
					d.instr = nil // already registered (re-execution of the block in a trial)
				}
			}
			if d.instr == nil {
				break
			}
		}
		for _, a := range x.Call.Args {
			d.args = append(d.args, ex.get(fr, a))
		}
		if !x.Call.IsInvoke() {
			d.fnVal = ex.get(fr, x.Call.Value)
		} else {
			d.fnVal = ex.get(fr, x.Call.Value)
		}
		fr.defers = append(fr.defers, d)
	case *ssa.RunDefers:
		for i := len(fr.defers) - 1; i >= 0; i-- {
			d := fr.defers[i]
			if d.flag == nil {
				ex.execCallWith(fr, st, reach, d.common, d.fnVal, d.args, d.instr, d.instr.Pos())
				continue
			}
			flag := "false"
			if c, ok := st.cells[*d.flag]; ok {
				flag = c.L[0]
			}
			switch flag {
			case "false":
			case "true":
				ex.execCallWith(fr, st, reach, d.common, d.fnVal, d.args, d.instr, d.instr.Pos())
			default:
				// executed on some of the paths that reach this return
				s2 := st.clone()
				r2 := ex.sc.define("defer_run", sBool, mkAnd(reach, flag))
				ex.execCallWith(fr, s2, r2, d.common, d.fnVal, d.args, d.instr, d.instr.Pos())
				_, merged := ex.mergeStates([]inEdge{{ex.sc.define("defer_skip", sBool, mkAnd(reach, mkNot(flag))), st.clone()}, {r2, s2}}, "defer")
				*st = *merged
			}
		}
	case *ssa.Extract:
		t := ex.get(fr, x.Tuple)
		if t.Tup == nil {
			panic("extract from non-tuple")
		}
		fr.regs[x] = t.Tup[x.Index]
	case *ssa.Phi:
		// only short-circuit value phis exist in naive form; predecessors
		// were executed already, pick by edge reachability
		ex.execPhi(fr, st, x)
	case *ssa.MakeInterface:
		fr.regs[x] = ex.makeInterface(st, ex.get(fr, x.X), x.Type())
	case *ssa.ChangeInterface:
		v := ex.get(fr, x.X)
		fr.regs[x] = Val{T: x.Type(), L: v.L}
	case *ssa.ChangeType:
		v := ex.get(fr, x.X)
		v.T = x.Type()
		fr.regs[x] = v
	case *ssa.Convert:
		ex.setReg(fr, x, ex.execConvert(fr, st, reach, x))
	case *ssa.TypeAssert:
		ex.execTypeAssert(fr, st, reach, x)
	case *ssa.MakeMap:
		fr.regs[x] = ex.makeMap(st, x.Type())
	case *ssa.MakeSlice:
		ex.execMakeSlice(fr, st, reach, x)
	case *ssa.MakeClosure:
		cl := &Closure{Fn: x.Fn.(*ssa.Function)}
		for _, b := range x.Bindings {
			cl.Bindings = append(cl.Bindings, ex.get(fr, b))
		}
		fr.regs[x] = Val{T: x.Type(), Fn: cl}
	case *ssa.MapUpdate:
		m := ex.get(fr, x.Map)
		k := ex.get(fr, x.Key)
		v := ex.get(fr, x.Value)
		ex.oblige(fr, "nil", nil, x.Pos(), "assignment to entry in nil map", reach, mkNot(mkEq(m.term(), "0")))
		ex.checkFrameRef(fr, st, reach, m.term(), "map "+typeKey(m.T), x.Pos())
		ex.mapStore(st, m, k, v)
	case *ssa.Range:
		ex.execRange(fr, st, x)
	case *ssa.Next:
		ex.execNext(fr, st, reach, x)
	case *ssa.SliceToArrayPointer:
		panic(unsupported("slice to array pointer conversion"))
	case *ssa.Go, *ssa.Select, *ssa.Send, *ssa.MakeChan:
		panic(unsupported("concurrency construct " + ins.String()))
	default:
		panic(unsupported(fmt.Sprintf("instruction %T", ins)))
	}
}

func (ex *Exec) execPhi(fr *Frame, st *State, x *ssa.Phi) {
	// Without lifting, phis come from && / || only: value is bool. The phi's
	// edges carry constants or a computed value; we reconstruct it from the
	// edge conditions recorded in phiEdge.
	b := x.Block()
	var conds []string
	var vals []Val
	for i, p := range b.Preds {
		c, ok := ex.phiEdgeCond(fr, p, b)
		if !ok {
			continue
		}
		conds = append(conds, c)
		vals = append(vals, ex.get(fr, x.Edges[i]))
	}
	if len(vals) == 0 {
		panic("phi without executed predecessors")
	}
	fr.regs[x] = ex.mergeVals(conds, vals, x.Name())
}

// phiEdgeCond recomputes the condition under which control flowed p -> b.
func (ex *Exec) phiEdgeCond(fr *Frame, p, b *ssa.BasicBlock) (string, bool) {
	r, ok := ex.blockReach[blockKey{fr.id, p}]
	if !ok {
		return "", false
	}
	last := p.Instrs[len(p.Instrs)-1]
	if iff, ok := last.(*ssa.If); ok {
		c := ex.get(fr, iff.Cond).term()
		if p.Succs[0] == b && p.Succs[1] == b {
			return r, true
		}
		if p.Succs[0] == b {
			return mkAnd(r, c), true
		}
		return mkAnd(r, mkNot(c)), true
	}
	return r, true
}

type blockKey struct {
	frame int
	b     *ssa.BasicBlock
}

// ---------------------------------------------------------------------------

func (ex *Exec) isSimpleCell(a *ssa.Alloc) bool {
	return ex.eng.simpleAlloc(a)
}

func (ex *Exec) execAlloc(fr *Frame, st *State, a *ssa.Alloc) {
	elem := a.Type().Underlying().(*types.Pointer).Elem()
	if ex.isSimpleCell(a) {
		ck := cellKey{fr.id, a}
		st.cells[ck] = ex.zeroVal(elem)
		fr.regs[a] = Val{T: a.Type(), LV: &LValue{Kind: lvCell, Cell: ck, Root: elem, T: elem}}
		return
	}
	fr.regs[a] = ex.newObject(st, elem, a.Comment)
}

// newObject allocates a zeroed heap object of type t and returns a pointer.
func (ex *Exec) newObject(st *State, t types.Type, hint string) Val {
	r := ex.newRef(st, hint)
	pt := types.NewPointer(t)
	v := Val{T: pt, L: []string{r}}
	lv := ex.ptrLV(v)
	ex.store(st, lv, ex.zeroVal(t))
	return v
}

func (ex *Exec) derefLV(fr *Frame, st *State, reach string, p Val, pos token.Pos) *LValue {
	if p.LV != nil {
		return p.LV
	}
	if _, ok := ex.lvBack[p.term()]; !ok {
		ex.oblige(fr, "nil", nil, pos, "nil pointer dereference", reach, mkNot(mkEq(p.term(), "0")))
	}
	return ex.ptrLV(p)
}

func (ex *Exec) execUnOp(fr *Frame, st *State, reach string, x *ssa.UnOp) Val {
	v := ex.get(fr, x.X)
	switch x.Op {
	case token.MUL:
		lv := ex.derefLV(fr, st, reach, v, x.Pos())
		r := ex.load(st, lv)
		if g, ok := x.X.(*ssa.Global); ok && ex.eng.nonNilGlobal(g) && len(r.L) >= 1 {
			ex.sc.assert(mkNot(mkEq(r.L[0], "0")))
			ex.assumedUsed["package-level variable "+g.Pkg.Pkg.Name()+"."+g.Name()+" is initialised once to a non-nil value"] = true
		}
		return r
	case token.NOT:
		return scalar(x.Type(), mkNot(v.term()))
	case token.SUB:
		return scalar(x.Type(), ex.wrapArith(x.Type(), mkSub("0", v.term())))
	case token.XOR:
		bits, signed, _ := intInfo(x.Type())
		if signed {
			return scalar(x.Type(), mkSub(mkSub("0", v.term()), "1"))
		}
		return scalar(x.Type(), mkSub(numBig(new(big0).Sub(pow2(bits), one)), v.term()))
	}
	panic(unsupported("unary operator " + x.Op.String()))
}

// ---------------------------------------------------------------------------
// top-level entry

func (ex *Exec) checkFrame(fr *Frame, st *State, reach string, lv *LValue, pos token.Pos) {
	if lv.Kind == lvCell {
		return
	}
	ex.checkFrameRef(fr, st, reach, lv.Ref, "store", pos)
}

// blockReach is kept for phi reconstruction.
func (ex *Exec) noteBlockReach(fr *Frame, b *ssa.BasicBlock, reach string) {
	if ex.blockReach == nil {
		ex.blockReach = map[blockKey]string{}
	}
	ex.blockReach[blockKey{fr.id, b}] = reach
}

func sortedBlocks(m map[*ssa.BasicBlock]bool) []*ssa.BasicBlock {
	var out []*ssa.BasicBlock
	for b := range m {
		out = append(out, b)
	}
	sort.Slice(out, func(i, j int) bool { return out[i].Index < out[j].Index })
	return out
}
