package main

// Symbolic state: heap components (Burstall-Bornat arrays) and local cells;
// load/store through lvalues; merging at control-flow joins.

import (
	"strings"
	"fmt"
	"go/types"
	"math/big"
	"sort"
)

type big0 = big.Int

var one = big.NewInt(1)

type State struct {
	heap  map[string]string
	cells map[cellKey]Val
}

func newState() *State {
	return &State{heap: map[string]string{}, cells: map[cellKey]Val{}}
}

func (s *State) clone() *State {
	n := &State{heap: make(map[string]string, len(s.heap)), cells: make(map[cellKey]Val, len(s.cells))}
	for k, v := range s.heap {
		n.heap[k] = v
	}
	for k, v := range s.cells {
		n.cells[k] = v
	}
	return n
}

// comp returns the current term of heap component name, declaring the initial
// heap constant on first use.
func (ex *Exec) comp(st *State, name, srt string) string {
	if t, ok := st.heap[name]; ok {
		return t
	}
	return ex.compInit(name, srt)
}

func (ex *Exec) compInit(name, srt string) string {
	if s0, ok := ex.compSort[name]; ok && s0 != srt && srt != "" {
		panic(fmt.Sprintf("component %s used with sorts %s and %s", name, s0, srt))
	}
	if srt == "" {
		srt = ex.compSort[name]
	}
	ex.compSort[name] = srt
	g := ex.sc.global("H0_"+sanitize(name), srt)
	ex.entryHeapWF(name, g)
	return g
}

// entryHeapWF: the heap at function entry is well-formed - every object
// reference stored in an object (or array) that exists at entry is nil or refers
// to an object that exists at entry. Asserted once per reference-valued component
// of the entry heap (needed for loads under a quantifier, where the per-load
// assumption of load() is not made).
func (ex *Exec) entryHeapWF(name, g string) {
	mark := "entrywf:" + name
	if _, done := ex.sc.decls[mark]; done {
		return
	}
	isH, isE := strings.HasPrefix(name, "H|"), strings.HasPrefix(name, "E|")
	if !isH && !isE {
		return
	}
	parts := strings.Split(name, "|")
	if len(parts) != 3 {
		return
	}
	root, ok := compTypes[parts[1]]
	if !ok {
		return
	}
	var k int
	if _, err := fmt.Sscanf(parts[2], "%d", &k); err != nil {
		return
	}
	leaves := flatten(root)
	if k < 0 || k >= len(leaves) || len(leaves[k].Dims) > 0 {
		return
	}
	l := leaves[k]
	if l.Kind != lkRef && l.Kind != lkSliceRef {
		return
	}
	if _, isBasic := l.T.(*types.Basic); isBasic {
		return
	}
	ex.sc.decls[mark] = "done"
	a0 := ex.sc.global("H0_alloc", sArr(sInt, sBool))
	// pointers may be interior (negative, not subject to this); maps, slices,
	// channels and functions are nil or objects
	nilOr := "="
	if _, isPtr := l.T.Underlying().(*types.Pointer); isPtr {
		nilOr = "<="
	}
	if isH {
		ex.sc.axiom(fmt.Sprintf("(forall ((p Int)) (! (=> (select %s p) (or (%s (select %s p) 0) (select %s (select %s p)))) :pattern ((select %s p))))", a0, nilOr, g, a0, g, g))
		return
	}
	ex.sc.axiom(fmt.Sprintf("(forall ((p Int) (i Int)) (! (=> (select %s p) (or (%s (select (select %s p) i) 0) (select %s (select (select %s p) i)))) :pattern ((select (select %s p) i))))", a0, nilOr, g, a0, g, g))
}

func (ex *Exec) setComp(st *State, name, srt, term string) {
	ex.compSort[name] = srt
	st.heap[name] = ex.sc.define("h_"+trunc(sanitize(name), 24), srt, term)
}

// component names
func compH(root types.Type, k int) string {
	compTypes[typeKey(root)] = root
	return fmt.Sprintf("H|%s|%d", typeKey(root), k)
}
func compE(elem types.Type, k int) string {
	compTypes[typeKey(elem)] = elem
	return fmt.Sprintf("E|%s|%d", typeKey(elem), k)
}
func compMdom(m types.Type) string        { return "Mdom|" + typeKey(m) }
func compMlen(m types.Type) string        { return "Mlen|" + typeKey(m) }
func compMval(m types.Type, k int) string { return fmt.Sprintf("Mval|%s|%d", typeKey(m), k) }

const compAlloc = "alloc"

// ---------------------------------------------------------------------------
// navigating a path inside a root type

type navResult struct {
	lo, n int      // leaf range inside the root's flattening
	idxs  []string // array index terms to apply (outermost first)
	t     types.Type
}

func navigate(root types.Type, path []pathStep) navResult {
	r := navResult{lo: 0, n: len(flatten(root)), t: root}
	for _, p := range path {
		switch u := r.t.Underlying().(type) {
		case *types.Struct:
			if p.Field < 0 {
				panic("index step on struct")
			}
			off, cnt := fieldLeafRange(u, p.Field)
			r.lo += off
			r.n = cnt
			r.t = u.Field(p.Field).Type()
		case *types.Array:
			if p.Field >= 0 {
				panic("field step on array")
			}
			r.idxs = append(r.idxs, p.Index)
			r.t = u.Elem()
		default:
			panic(unsupported(fmt.Sprintf("path step into %v", r.t)))
		}
	}
	return r
}

func selectN(arr string, idxs []string) string {
	for _, i := range idxs {
		arr = mkSelect(arr, i)
	}
	return arr
}

// storeN returns arr with arr[idxs...] := v.
func storeN(arr string, idxs []string, v string) string {
	if len(idxs) == 0 {
		return v
	}
	inner := storeN(mkSelect(arr, idxs[0]), idxs[1:], v)
	return mkStore(arr, idxs[0], inner)
}

// stripDims returns leaf l with n outer array dimensions removed.
func stripDims(l Leaf, n int) Leaf {
	for i := 0; i < n; i++ {
		l.Dims = l.Dims[1:]
		// Sort is "(Array Int X)" -> X
		l.Sort = strings.TrimSuffix(strings.TrimPrefix(l.Sort, "(Array Int "), ")")
	}
	return l
}

// rootLeaf / setRootLeaf access leaf k of the container an lvalue is rooted in.
func (ex *Exec) rootLeaf(st *State, lv *LValue, k int) string {
	leaves := flatten(lv.Root)
	switch lv.Kind {
	case lvCell:
		v, ok := st.cells[lv.Cell]
		if !ok {
			panic(fmt.Sprintf("read of unset cell %v", lv.Cell.a))
		}
		if len(v.L) != len(leaves) {
			panic(unsupported("cell holds engine-level value; cannot navigate"))
		}
		return v.L[k]
	case lvHeap:
		c := ex.comp(st, compH(lv.Root, k), sArr(sInt, leaves[k].Sort))
		ex.guardAccess(st, compH(lv.Root, k), lv.Ref, false)
		return mkSelect(c, lv.Ref)
	case lvElem:
		c := ex.comp(st, compE(lv.Root, k), sArr(sInt, sArr(sInt, leaves[k].Sort)))
		return mkSelect(mkSelect(c, lv.Ref), lv.Idx)
	case lvArr:
		elem := lv.Root.Underlying().(*types.Array).Elem()
		c := ex.comp(st, compE(elem, k), sArr(sInt, leaves[k].Sort))
		return mkSelect(c, lv.Ref)
	}
	panic("rootLeaf: bad lvalue kind")
}

func (ex *Exec) setRootLeaf(st *State, lv *LValue, k int, term string) {
	leaves := flatten(lv.Root)
	switch lv.Kind {
	case lvCell:
		v := st.cells[lv.Cell]
		nl := make([]string, len(v.L))
		copy(nl, v.L)
		nl[k] = term
		v.L = nl
		st.cells[lv.Cell] = v
	case lvHeap:
		name := compH(lv.Root, k)
		srt := sArr(sInt, leaves[k].Sort)
		c := ex.comp(st, name, srt)
		ex.guardAccess(st, name, lv.Ref, true)
		ex.noteWrite(name, lv.Ref)
		ex.setComp(st, name, srt, mkStore(c, lv.Ref, term))
	case lvElem:
		name := compE(lv.Root, k)
		srt := sArr(sInt, sArr(sInt, leaves[k].Sort))
		c := ex.comp(st, name, srt)
		ex.noteWrite(name, lv.Ref)
		ex.setComp(st, name, srt, mkStore(c, lv.Ref, mkStore(mkSelect(c, lv.Ref), lv.Idx, term)))
	case lvArr:
		elem := lv.Root.Underlying().(*types.Array).Elem()
		name := compE(elem, k)
		srt := sArr(sInt, leaves[k].Sort)
		c := ex.comp(st, name, srt)
		ex.noteWrite(name, lv.Ref)
		ex.setComp(st, name, srt, mkStore(c, lv.Ref, term))
	default:
		panic("setRootLeaf: bad lvalue kind")
	}
}

// load reads the value at lv.
func (ex *Exec) load(st *State, lv *LValue) Val {
	if lv.Kind == lvView {
		return ex.loadView(st, lv)
	}
	if lv.Kind == lvCell && len(lv.Path) == 0 {
		v, ok := st.cells[lv.Cell]
		if !ok {
			panic(fmt.Sprintf("read of unset cell %s", lv.Cell.a.Comment))
		}
		return v
	}
	nav := navigate(lv.Root, lv.Path)
	rootLeaves := flatten(lv.Root)
	out := Val{T: nav.t, L: make([]string, nav.n)}
	for i := 0; i < nav.n; i++ {
		raw := ex.rootLeaf(st, lv, nav.lo+i)
		t := selectN(raw, nav.idxs)
		l := stripDims(rootLeaves[nav.lo+i], len(nav.idxs))
		if lv.Kind != lvCell && len(l.Dims) == 0 && ex.sc.pure == 0 {
			hint := "ld"
			switch l.Kind {
			case lkSliceLen:
				hint = "ldlen"
			case lkSliceCap:
				hint = "ldcap"
			}
			t = ex.sc.define(hint, l.Sort, t)
			ex.sc.assert(scalarRange(l, t))
		}
		out.L[i] = t
	}
	if lv.Kind != lvCell && ex.sc.pure == 0 {
		ex.assumeWF(st, out)
	} else if lv.Kind != lvCell && groundTerms(out.L) {
		// a load made while evaluating a specification: the loaded value is as
		// well-formed as one loaded by the code (ground terms only; nothing is
		// assumed about terms under a binder)
		for i := 0; i < nav.n; i++ {
			l := stripDims(rootLeaves[nav.lo+i], len(nav.idxs))
			if len(l.Dims) == 0 {
				ex.sc.assert(scalarRange(l, out.L[i]))
			}
		}
		ex.assumeWF(st, out)
	}
	return out
}

// store writes v at lv.
func (ex *Exec) store(st *State, lv *LValue, v Val) {
	if lv.Kind == lvView {
		ex.storeView(st, lv, v)
		return
	}
	if lv.Kind == lvCell && len(lv.Path) == 0 {
		st.cells[lv.Cell] = v
		return
	}
	if v.LV != nil || v.Fn != nil || v.It != nil {
		v = ex.lower(v)
	}
	nav := navigate(lv.Root, lv.Path)
	if len(v.L) != nav.n {
		panic(fmt.Sprintf("store: %d leaves into %d (type %v into %v)", len(v.L), nav.n, v.T, nav.t))
	}
	for i := 0; i < nav.n; i++ {
		if len(nav.idxs) == 0 {
			ex.setRootLeaf(st, lv, nav.lo+i, v.L[i])
		} else {
			raw := ex.rootLeaf(st, lv, nav.lo+i)
			ex.setRootLeaf(st, lv, nav.lo+i, storeN(raw, nav.idxs, v.L[i]))
		}
	}
}

// lower turns an engine-level value into leaf terms where possible.
func (ex *Exec) lower(v Val) Val {
	if v.LV != nil {
		lv := v.LV
		if lv.Kind == lvHeap && len(lv.Path) == 0 {
			return Val{T: v.T, L: []string{lv.Ref}}
		}
		// interior pointer: encode opaquely but remember it so that the very
		// same term can be turned back into the lvalue.
		key := lv.key()
		if t, ok := ex.lvIntern[key]; ok {
			return Val{T: v.T, L: []string{t}}
		}
		t := ex.sc.fresh("iptr", sInt)
		ex.sc.axiom(mkCmp("<", t, "0")) // interior pointers are negative: never nil, never an object ref
		for _, other := range ex.lvInternList {
			ex.sc.axiom(mkNot(mkEq(t, other)))
		}
		ex.lvIntern[key] = t
		ex.lvInternList = append(ex.lvInternList, t)
		ex.lvBack[t] = lv
		return Val{T: v.T, L: []string{t}}
	}
	if v.Fn != nil {
		key := fmt.Sprintf("%p", v.Fn.Fn)
		if len(v.Fn.Bindings) > 0 {
			key = fmt.Sprintf("%p/%d", v.Fn.Fn, len(ex.fnBack))
		}
		if t, ok := ex.fnIntern[key]; ok {
			return Val{T: v.T, L: []string{t}}
		}
		t := ex.sc.fresh("fn_"+v.Fn.Fn.Name(), sInt)
		ex.sc.axiom(mkCmp(">", t, "0"))
		ex.fnIntern[key] = t
		ex.fnBack[t] = v.Fn
		return Val{T: v.T, L: []string{t}}
	}
	if v.It != nil {
		panic(unsupported("iterator stored in memory"))
	}
	return v
}

// ptrLV converts a pointer value into an lvalue for the pointee.
func (ex *Exec) ptrLV(v Val) *LValue {
	if v.LV != nil {
		return v.LV
	}
	pt, ok := v.T.Underlying().(*types.Pointer)
	if !ok {
		panic(fmt.Sprintf("ptrLV of non-pointer %v", v.T))
	}
	if lv, ok := ex.lvBack[v.term()]; ok {
		return lv
	}
	elem := pt.Elem()
	if _, ok := elem.Underlying().(*types.Array); ok {
		// root array object: lives in the element components so that it can be sliced
		return &LValue{Kind: lvArr, Root: elem, Ref: v.term(), T: elem}
	}
	return &LValue{Kind: lvHeap, Root: elem, Ref: v.term(), T: elem}
}

// assumeWF asserts structural well-formedness of a loaded / fresh value:
// slices have 0 <= len <= cap, references are allocated.
func (ex *Exec) assumeWF(st *State, v Val) {
	leaves := flatten(v.T)
	if len(leaves) != len(v.L) {
		return
	}
	for i := 0; i < len(leaves); i++ {
		l := leaves[i]
		if len(l.Dims) > 0 {
			continue
		}
		switch l.Kind {
		case lkSliceRef:
			ref, off, ln, cp := v.L[i], v.L[i+1], v.L[i+2], v.L[i+3]
			ex.sc.assert(mkAnd(mkCmp(">=", ref, "0"), mkCmp(">=", off, "0"), mkCmp(">=", ln, "0"), mkCmp("<=", ln, cp),
				mkCmp("<=", mkAdd(off, cp), "4611686018427387904"), mkImp(mkEq(ref, "0"), mkEq(cp, "0"))))
			ex.sc.assert(ex.isAlloc(st, ref))
		case lkRef:
			if _, isNil := l.T.(*types.Basic); isNil {
				continue
			}
			if _, isPtr := l.T.Underlying().(*types.Pointer); isPtr {
				// object pointers are allocated or nil; interior pointers are negative
				ex.sc.assert(mkOr(mkCmp("<", v.L[i], "0"), ex.isAlloc(st, v.L[i])))
			} else {
				ex.sc.assert(mkAnd(mkCmp(">=", v.L[i], "0"), ex.isAlloc(st, v.L[i])))
			}
		case lkTid:
			ex.sc.assert(mkCmp(">=", v.L[i], "0"))
			ex.sc.assert(mkImp(mkEq(v.L[i], "0"), mkEq(v.L[i+1], "0")))
		}
	}
}

func (ex *Exec) isAlloc(st *State, ref string) string {
	if ref == "0" {
		return "true"
	}
	a := ex.comp(st, compAlloc, sArr(sInt, sBool))
	return mkOr(mkEq(ref, "0"), mkSelect(a, ref))
}

// newRef allocates a fresh object reference.
func (ex *Exec) newRef(st *State, hint string) string {
	r := ex.sc.fresh("ref_"+hint, sInt)
	a := ex.comp(st, compAlloc, sArr(sInt, sBool))
	ex.sc.assert(mkAnd(mkCmp(">", r, "0"), mkNot(mkSelect(a, r))))
	ex.setComp(st, compAlloc, sArr(sInt, sBool), mkStore(a, r, "true"))
	ex.noteWrite(compAlloc, r)
	ex.freshRefs[r] = true
	// an object allocated by verified code is not known to the environment
	ex.sc.assert(mkNot(mkSelect(ex.comp(st, "envowned", sArr(sInt, sBool)), r)))
	return r
}

// ---------------------------------------------------------------------------
// merging

type inEdge struct {
	cond string
	st   *State
}

func (ex *Exec) mergeStates(edges []inEdge, hint string) (string, *State) {
	if len(edges) == 1 {
		return edges[0].cond, edges[0].st.clone()
	}
	conds := make([]string, len(edges))
	for i, e := range edges {
		conds[i] = e.cond
	}
	reach := ex.sc.define("reach_"+hint, sBool, mkOr(conds...))
	out := newState()
	// heap
	names := map[string]bool{}
	for _, e := range edges {
		for k := range e.st.heap {
			names[k] = true
		}
	}
	nl := make([]string, 0, len(names))
	for k := range names {
		nl = append(nl, k)
	}
	sort.Strings(nl)
	for _, name := range nl {
		terms := make([]string, len(edges))
		same := true
		for i, e := range edges {
			terms[i] = ex.comp(e.st, name, "")
			if terms[i] != terms[0] {
				same = false
			}
		}
		if same {
			out.heap[name] = terms[0]
			continue
		}
		out.heap[name] = ex.sc.define("m_"+trunc(sanitize(name), 20), ex.compSort[name], iteChain(conds, terms))
	}
	// cells
	cks := map[cellKey]bool{}
	for _, e := range edges {
		for k := range e.st.cells {
			cks[k] = true
		}
	}
	for ck := range cks {
		vals := make([]Val, 0, len(edges))
		missing := false
		for _, e := range edges {
			v, ok := e.st.cells[ck]
			if !ok {
				missing = true
				break
			}
			vals = append(vals, v)
		}
		if missing {
			continue // not live on every path
		}
		out.cells[ck] = ex.mergeVals(conds, vals, ck.a.Comment)
	}
	return reach, out
}

func iteChain(conds, terms []string) string {
	t := terms[len(terms)-1]
	for i := len(terms) - 2; i >= 0; i-- {
		t = mkIte(conds[i], terms[i], t)
	}
	return t
}

func (ex *Exec) mergeVals(conds []string, vals []Val, hint string) Val {
	v0 := vals[0]
	allSame := true
	for _, v := range vals[1:] {
		if !sameVal(v0, v) {
			allSame = false
			break
		}
	}
	if allSame {
		return v0
	}
	// engine-level values must be lowered
	lowered := make([]Val, len(vals))
	for i, v := range vals {
		if v.Tup != nil {
			panic(unsupported("merge of tuples"))
		}
		lowered[i] = ex.lower(v)
	}
	out := Val{T: v0.T, GS: v0.GS, L: make([]string, len(lowered[0].L))}
	var leaves []Leaf
	if v0.T != nil {
		leaves = flatten(v0.T)
	}
	for k := range out.L {
		terms := make([]string, len(lowered))
		same := true
		for i := range lowered {
			if len(lowered[i].L) != len(out.L) {
				panic(unsupported("merge of differently shaped values"))
			}
			terms[i] = lowered[i].L[k]
			if terms[i] != terms[0] {
				same = false
			}
		}
		if same {
			out.L[k] = terms[0]
		} else {
			srt := sInt
			if k < len(leaves) && len(leaves) == len(out.L) {
				srt = leaves[k].Sort
			} else if v0.T == nil && v0.GS != "" {
				srt = v0.GS
			}
			out.L[k] = ex.sc.define("phi_"+hint, srt, iteChain(conds, terms))
		}
	}
	return out
}

func sameVal(a, b Val) bool {
	if (a.LV == nil) != (b.LV == nil) || (a.Fn == nil) != (b.Fn == nil) || (a.It == nil) != (b.It == nil) {
		return false
	}
	if a.LV != nil {
		return a.LV.key() == b.LV.key()
	}
	if a.Fn != nil {
		return a.Fn == b.Fn || (a.Fn.Fn == b.Fn.Fn && len(a.Fn.Bindings) == 0 && len(b.Fn.Bindings) == 0)
	}
	if a.It != nil {
		return a.It == b.It
	}
	if len(a.Tup) != len(b.Tup) || len(a.L) != len(b.L) {
		return false
	}
	for i := range a.Tup {
		if !sameVal(a.Tup[i], b.Tup[i]) {
			return false
		}
	}
	for i := range a.L {
		if a.L[i] != b.L[i] {
			return false
		}
	}
	return true
}

// guardAccess: lock-discipline obligations for an access made by the current instruction.
func (ex *Exec) guardAccess(st *State, comp, ref string, write bool) {
	if !ex.lockChecks || ex.sc.pure > 0 || ex.curFrame == nil || ex.curInstr == nil || !ex.record {
		return
	}
	ex.guardCheck(ex.curFrame, st, ex.curReach, comp, ref, ex.curInstr.Pos(), write)
}

func groundTerms(ts []string) bool {
	for _, t := range ts {
		if strings.Contains(t, "qv_") || strings.Contains(t, "ql_") {
			return false
		}
	}
	return true
}
