package main

// Bounded stand-ins: executable checks of the real code over a stated bound.
// They are reported in a separate evidence block and never counted as proved.

import (
	"context"
	"fmt"
	"os"
	"os/exec"
	"strings"
	"time"
)

func runBounded(verif string, b BoundedRun, seed int, tier string) (map[string]interface{}, bool, []failure) {
	t0 := time.Now()
	ctx, cancel := context.WithTimeout(context.Background(), 20*time.Minute)
	defer cancel()
	cmd := exec.CommandContext(ctx, "bash", "-c", b.Cmd)
	cmd.Dir = verif
	cmd.Env = append(os.Environ(), fmt.Sprintf("VERIF_SEED=%d", seed), "VERIF_TIER="+tier,
		"GOFLAGS=-mod=mod", "GOPROXY=off", "GOSUMDB=off", "GOTOOLCHAIN=local")
	out, err := cmd.CombinedOutput()
	s := string(out)
	res := map[string]interface{}{"what": b.Name, "bound": b.Bound, "label": "bounded (not counted as proved)", "wall_s": time.Since(t0).Seconds()}
	var fails []failure
	cases := 0
	for _, line := range strings.Split(s, "\n") {
		if strings.HasPrefix(line, "BOUNDED-CASES ") {
			fmt.Sscanf(strings.TrimPrefix(line, "BOUNDED-CASES "), "%d", &cases)
		}
		if strings.HasPrefix(line, "BOUNDED-FAIL ") {
			parts := strings.SplitN(strings.TrimPrefix(line, "BOUNDED-FAIL "), " ", 2)
			f := failure{Name: "bounded/" + b.Name + "/" + parts[0], Kind: "bounded", Status: "failed", Unit: b.Name, Reason: "bounded stand-in found a failing case on the real code"}
			if len(parts) > 1 {
				f.Desc = parts[1]
			}
			fails = append(fails, f)
		}
	}
	res["cases"] = cases
	if err != nil && len(fails) == 0 {
		fails = append(fails, failure{Name: "bounded/" + b.Name + "/run", Kind: "bounded", Status: "failed", Desc: trunc(s, 1500), Unit: b.Name,
			Reason: "bounded stand-in did not complete: " + err.Error()})
	}
	res["result"] = "pass"
	if len(fails) > 0 {
		res["result"] = fmt.Sprintf("%d failing case classes", len(fails))
	}
	return res, len(fails) == 0, fails
}
