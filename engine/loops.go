package main

// Loops: natural-loop detection, discovery of what a loop writes, havoc at the
// header, annotated and inferred (Houdini-lite) invariants.

import (
	"time"
	"sync/atomic"
	"fmt"
	"go/types"
	"os"
	"regexp"
	"sort"
	"strconv"
	"strings"
	"sync"

	"golang.org/x/tools/go/ssa"
)

type loopRec struct {
	header  *ssa.BasicBlock
	blocks  map[*ssa.BasicBlock]bool
	ordinal int
}

type loopInfo struct {
	order []*ssa.BasicBlock
	loops map[*ssa.BasicBlock]*loopRec
}

func (li *loopInfo) inLoop(b *ssa.BasicBlock) bool {
	for _, lp := range li.loops {
		if lp != nil && lp.blocks[b] {
			return true
		}
	}
	return false
}

func (li *loopInfo) isBackEdge(from, to *ssa.BasicBlock) bool {
	return li.loops[to] != nil && to.Dominates(from)
}

func (eng *Engine) loopInfoFor(fn *ssa.Function) *loopInfo {
	if li, ok := eng.loopCache[fn]; ok {
		return li
	}
	li := &loopInfo{loops: map[*ssa.BasicBlock]*loopRec{}}
	// back edges and natural loops
	for _, b := range fn.Blocks {
		for _, s := range b.Succs {
			if s.Dominates(b) {
				lp := li.loops[s]
				if lp == nil {
					lp = &loopRec{header: s, blocks: map[*ssa.BasicBlock]bool{s: true}}
					li.loops[s] = lp
				}
				// walk predecessors from b up to s
				stack := []*ssa.BasicBlock{b}
				for len(stack) > 0 {
					x := stack[len(stack)-1]
					stack = stack[:len(stack)-1]
					if lp.blocks[x] {
						continue
					}
					lp.blocks[x] = true
					stack = append(stack, x.Preds...)
				}
			}
		}
	}
	var hs []*ssa.BasicBlock
	for h := range li.loops {
		hs = append(hs, h)
	}
	sort.Slice(hs, func(i, j int) bool { return hs[i].Index < hs[j].Index })
	for i, h := range hs {
		li.loops[h].ordinal = i
	}
	// reverse postorder ignoring back edges
	seen := map[*ssa.BasicBlock]bool{}
	var post []*ssa.BasicBlock
	var dfs func(b *ssa.BasicBlock)
	dfs = func(b *ssa.BasicBlock) {
		seen[b] = true
		for _, s := range b.Succs {
			if !seen[s] && !(li.loops[s] != nil && s.Dominates(b)) {
				dfs(s)
			}
		}
		post = append(post, b)
	}
	dfs(fn.Blocks[0])
	for i := len(post) - 1; i >= 0; i-- {
		li.order = append(li.order, post[i])
	}
	eng.loopCache[fn] = li
	return li
}

// ---------------------------------------------------------------------------

type loopKey struct {
	frame  int
	header *ssa.BasicBlock
}

// invariant is a formula schema evaluated on a state.
type invariant struct {
	id   string // stable name among the candidates of one loop (Houdini cache)
	desc string
	tags []string
	eval func(ex *Exec, fr *Frame, st *State) string
	kind string // "annotated" | "inferred"
	sure bool   // syntactically evident (monotone counter): not subject to Houdini
}

type loopCtx struct {
	invs      []invariant
	preState  *State
	variant   func(ex *Exec, fr *Frame, st *State) string
	varAtHead string
	spec      *LoopSpec
}

var symRe = regexp.MustCompile(`v(\d+)_[A-Za-z0-9_]*`)

// dependsOnFresh reports whether term mentions a symbol created after n0 that
// is not a definition over older symbols.
func (sc *Script) dependsOnFresh(term string, n0 int, memo map[string]bool) bool {
	for _, m := range symRe.FindAllStringSubmatch(term, -1) {
		name := m[0]
		n, _ := strconv.Atoi(m[1])
		if n <= n0 {
			continue
		}
		if r, ok := memo[name]; ok {
			if r {
				return true
			}
			continue
		}
		def, isDef := sc.defOf[name]
		r := true
		if isDef {
			memo[name] = false // cycle guard
			r = sc.dependsOnFresh(def, n0, memo)
		}
		memo[name] = r
		if r {
			return true
		}
	}
	return false
}

// modifiedCells: cells of this frame stored to inside the loop.
func (ex *Exec) modifiedCells(fr *Frame, lp *loopRec) []cellKey {
	seen := map[cellKey]bool{}
	var out []cellKey
	add := func(ck cellKey) {
		if !seen[ck] {
			seen[ck] = true
			out = append(out, ck)
		}
	}
	for _, b := range sortedBlocks(lp.blocks) {
		for _, ins := range b.Instrs {
			switch x := ins.(type) {
			case *ssa.Store:
				if a := rootAlloc(x.Addr); a != nil && ex.isSimpleCell(a) {
					add(cellKey{fr.id, a})
				}
			case *ssa.Alloc:
				if ex.isSimpleCell(x) {
					add(cellKey{fr.id, x})
				}
			case *ssa.Next:
				if r, ok := x.Iter.(*ssa.Range); ok {
					add(cellKey{fr.id, ex.eng.hiddenAlloc(r)})
				}
			}
		}
	}
	return out
}

func rootAlloc(v ssa.Value) *ssa.Alloc {
	for {
		switch x := v.(type) {
		case *ssa.Alloc:
			return x
		case *ssa.FieldAddr:
			v = x.X
		case *ssa.IndexAddr:
			v = x.X
		default:
			return nil
		}
	}
}

func (fr *Frame) cloneRegs() *Frame {
	n := *fr
	n.regs = make(map[ssa.Value]Val, len(fr.regs))
	for k, v := range fr.regs {
		n.regs[k] = v
	}
	n.defers = append([]deferredCall(nil), fr.defers...)
	return &n
}

// havocCells replaces the given cells by fresh values.
func (ex *Exec) havocCells(fr *Frame, st *State, cells []cellKey) {
	for _, ck := range cells {
		old, ok := st.cells[ck]
		if !ok {
			continue // not yet live at the header (declared inside the loop)
		}
		if old.LV != nil || old.Fn != nil || old.It != nil || old.Tup != nil {
			panic(unsupported("loop modifies a cell holding an engine-level value: " + ck.a.Comment))
		}
		if old.T == nil {
			st.cells[ck] = Val{GS: old.GS, L: []string{ex.sc.fresh("visited", old.GS)}}
			continue
		}
		if _, hidden := ex.hiddenCells[ck]; hidden && len(old.L) == 1 {
			// string iterator position
			nv := ex.sc.fresh("iterpos", sInt)
			ex.sc.assert(mkCmp(">=", nv, "0"))
			st.cells[ck] = Val{T: old.T, L: []string{nv}}
			continue
		}
		st.cells[ck] = ex.freshVal(st, old.T, "lp_"+ck.a.Comment)
	}
}

type backRec struct {
	cond string
	st   *State
	fr   *Frame
}

// runLoopBody executes the blocks of lp once, starting at its header with the
// given state; returns the states flowing along back edges.
func (ex *Exec) runLoopBody(fr *Frame, lp *loopRec, reach string, st *State) []backRec {
	li := ex.eng.loopInfoFor(fr.fn)
	in := map[*ssa.BasicBlock][]inEdge{lp.header: {{reach, st}}}
	var backs []backRec
	var rets []retRec
	saved := ex.trialBack
	ex.trialBack = func(h *ssa.BasicBlock, cond string, s *State) bool {
		if h == lp.header {
			backs = append(backs, backRec{cond, s, fr})
			return true
		}
		return false
	}
	defer func() { ex.trialBack = saved }()
	first := true
	for _, b := range li.order {
		if !lp.blocks[b] {
			continue
		}
		edges := in[b]
		if len(edges) == 0 {
			continue
		}
		delete(in, b)
		var breach string
		var bst *State
		if len(edges) == 1 {
			breach, bst = edges[0].cond, edges[0].st.clone()
		} else {
			breach, bst = ex.mergeStates(edges, fmt.Sprintf("%s_b%d", fr.fn.Name(), b.Index))
		}
		if inner := li.loops[b]; inner != nil && !(first && b == lp.header) {
			breach, bst = ex.enterLoop(fr, inner, breach, bst)
		}
		first = false
		ex.noteBlockReach(fr, b, breach)
		ex.execBlock(fr, b, breach, bst, in, &rets, li)
		// drop edges leaving the loop
		for t := range in {
			if !lp.blocks[t] {
				delete(in, t)
			}
		}
	}
	return backs
}

// enterLoop is called with the merged state of the forward edges into a loop
// header. It checks the invariants, havocs what the loop modifies and returns
// the state of an arbitrary iteration.
func (ex *Exec) enterLoop(fr *Frame, lp *loopRec, reach string, st *State) (string, *State) {
	ex.loopDepth++
	defer func() { ex.loopDepth-- }()
	savedG := ex.sc.guard
	ex.sc.guard = reach
	defer func() { ex.sc.guard = savedG }()
	cells := ex.modifiedCells(fr, lp)
	n0 := ex.sc.counter

	// ---- discovery pass 1: which heap components does the body write?
	d1 := ex.cloneForTrial()
	d1.wlog = &writeLog{}
	f1 := fr.cloneRegs()
	s1 := st.clone()
	d1.havocCells(f1, s1, cells)
	d1.runLoopBody(f1, lp, reach, s1)
	compsWritten := map[string]bool{}
	for _, w := range d1.wlog.recs {
		compsWritten[w.comp] = true
	}
	for _, n := range d1.notes {
		ex.notes = append(ex.notes, n)
	}
	// ---- discovery pass 2: are the written references loop-invariant?
	fullHavoc := map[string]bool{}
	freshOnly := map[string]bool{} // variant writes go to objects allocated inside the loop only
	sinceFnEntry := map[string]bool{} // ... or, for these components, to objects allocated since the function was entered
	iterSafe := map[cellKey]bool{}    // map iterators whose map is provably not written by the body
	pointRefs := map[string][]string{}
	if len(compsWritten) > 0 {
		d2 := ex.cloneForTrial()
		d2.wlog = &writeLog{}
		f2 := fr.cloneRegs()
		s2 := st.clone()
		for _, c := range sortedKeys(compsWritten) {
			old := d2.comp(s2, c, d2.compSort[c])
			s2.heap[c] = d2.sc.fresh("hv", d2.compSort[c])
			if c == compAlloc {
				// objects are never deallocated
				d2.sc.assert(fmt.Sprintf("(forall ((r Int)) (! (=> (select %s r) (select %s r)) :pattern ((select %s r))))", old, s2.heap[c], s2.heap[c]))
				if fr.entryAlloc != "" && fr.entryAlloc != old {
					d2.sc.assert(fmt.Sprintf("(forall ((r Int)) (! (=> (select %s r) (select %s r)) :pattern ((select %s r))))", fr.entryAlloc, s2.heap[c], s2.heap[c]))
				}
			}
		}
		d2.havocCells(f2, s2, cells)
		// the annotated invariants hold at the head of every iteration (they are
		// proved on entry and preserved, by induction together with the frame derived
		// here): they may be used to show that a written object is one allocated
		// during the loop
		if sp := ex.eng.specs.loopSpec(shortFn(fr.fn), lp.ordinal); sp != nil {
			for _, cl := range sp.Invariants {
				func() {
					defer func() {
						if r := recover(); r != nil && os.Getenv("GOVC_DEBUG") != "" {
							fmt.Fprintf(os.Stderr, "  invariant not usable in discovery: %s: %v\n", trunc(cl.Text, 60), r)
						}
					}() // a clause that cannot be evaluated here is simply not used
					d2.sc.assert(mkImp(reach, d2.evalLoopClause(f2, s2, cl, lp)))
				}()
			}
		}
		allocAtEntry := ex.comp(st, compAlloc, sArr(sInt, sBool))
		// semantic freshness proofs are attempted only for loops that carry annotated
		// invariants (without them they do not succeed), and only a few times per loop
		semBudget := 0
		if sp := ex.eng.specs.loopSpec(shortFn(fr.fn), lp.ordinal); sp != nil && len(sp.Invariants) > 0 {
			semBudget = 8
		}
		d2.runLoopBody(f2, lp, reach, s2)
		memo := map[string]bool{}
		for _, w := range d2.wlog.recs {
			if w.comp == compAlloc || w.ref == "*" {
				fullHavoc[w.comp] = true
				freshOnly[w.comp] = false
				continue
			}
			if d2.sc.dependsOnFresh(w.ref, n0, memo) {
				if !fullHavoc[w.comp] {
					fullHavoc[w.comp] = true
					freshOnly[w.comp] = true
				}
				trySem := !d2.isFreshRefTerm(w.ref, n0, 0) && freshOnly[w.comp] && semBudget > 0
				if trySem {
					semBudget--
				}
				if trySem && d2.quickProveT(mkImp(mkAnd(reach, w.reach), mkNot(mkSelect(allocAtEntry, w.ref))), 3) {
					// not syntactically, but provably (with the invariants) an object
					// that did not exist when the loop was entered
					continue
				}
				if os.Getenv("GOVC_DEBUG") != "" {
					fmt.Fprintf(os.Stderr, "  semantic freshness of %s at %s: entryAlloc=%q\n", w.comp, w.ref, fr.entryAlloc)
				}
				if trySem && fr.entryAlloc != "" && d2.quickProveT(mkImp(mkAnd(reach, w.reach), mkNot(mkSelect(fr.entryAlloc, w.ref))), 3) {
					// ... or at least one that did not exist when the function was entered:
					// the weaker frame "objects that existed at function entry keep their contents"
					sinceFnEntry[w.comp] = true
					continue
				}
				if !d2.isFreshRefTerm(w.ref, n0, 0) {
					if os.Getenv("GOVC_DEBUG") != "" && ex.record && freshOnly[w.comp] {
						fmt.Fprintf(os.Stderr, "  non-fresh variant write to %s at %s = %s\n", w.comp, w.ref, trunc(d2.sc.expandDefs(w.ref, n0), 300))
					}
					freshOnly[w.comp] = false
				}
				continue
			}
			ref := d2.sc.expandDefs(w.ref, n0)
			dup := false
			for _, r := range pointRefs[w.comp] {
				if r == ref {
					dup = true
				}
			}
			if !dup {
				pointRefs[w.comp] = append(pointRefs[w.comp], ref)
			}
		}
		// map iterators of this loop: is every map written by the body provably a
		// different object than the iterated one? (then the iteration visits every key)
		for _, ck := range cells {
			if t, isHidden := ex.hiddenCells[ck]; !isHidden || t != nil {
				continue
			}
			var iterated *iterState
			for _, v := range fr.regs {
				if v.It != nil && v.It.posCell == ck {
					iterated = v.It
				}
			}
			if iterated == nil {
				continue
			}
			safe := true
			seenRef := map[string]bool{}
			for _, w := range d2.wlog.recs {
				if w.comp != compMdom(iterated.coll.T) || seenRef[w.ref] {
					continue
				}
				seenRef[w.ref] = true
				if w.ref == "*" || !d2.quickProveT(mkImp(mkAnd(reach, w.reach), mkNot(mkEq(w.ref, iterated.coll.term()))), 5) {
					if os.Getenv("GOVC_DEBUG") != "" {
						fmt.Fprintf(os.Stderr, "  map iteration over %s: write at %s not shown to be another map\n", iterated.coll.term(), trunc(d2.sc.expandDefs(w.ref, n0), 200))
					}
					safe = false
					break
				}
			}
			iterSafe[ck] = safe
		}
		// make sure sorts of components first seen in the trial are known
		for c := range compsWritten {
			if _, ok := ex.compSort[c]; !ok {
				ex.compSort[c] = d2.compSort[c]
			}
		}
	}

	if os.Getenv("GOVC_DEBUG") != "" && ex.record {
		fmt.Fprintf(os.Stderr, "loop %s#%d: cells=%d comps=%v full=%v freshOnly=%v point=%v\n", shortFn(fr.fn), lp.ordinal, len(cells), sortedKeysB(compsWritten), sortedKeysB(fullHavoc), freshOnly, pointRefs)
	}
	// initial-heap constants first declared during discovery may be mentioned by
	// loop-invariant reference terms: declare them in the real script as well
	for _, d := range []*Exec{d1} {
		for name, srt := range d.sc.decls {
			if (strings.HasPrefix(name, "H0_") || strings.HasPrefix(name, "G_")) && srt != "fun" {
				if _, ok := ex.sc.decls[name]; !ok {
					ex.sc.global(name, srt)
				}
			}
		}
	}
	lc := &loopCtx{preState: st.clone()}
	ex.loopCtxs[loopKey{fr.id, lp.header}] = lc
	spec := ex.eng.specs.loopSpec(shortFn(fr.fn), lp.ordinal)
	lc.spec = spec

	// ---- annotated invariants: establish on entry
	if spec != nil {
		for _, cl := range spec.Invariants {
			cl := cl
			inv := invariant{desc: cl.Text, tags: cl.Tags, kind: "annotated",
				eval: func(e *Exec, f *Frame, s *State) string { return e.evalLoopClause(f, s, cl, lp) }}
			ex.oblige(fr, "inv-init", cl.Tags, lp.header.Instrs[0].Pos(), "loop invariant holds on entry: "+cl.Text, reach, inv.eval(ex, fr, st))
			lc.invs = append(lc.invs, inv)
		}
	}

	// ---- candidates for inferred invariants (checked on the pre-state first)
	cands := ex.inferCandidates(fr, lp, reach, st, cells, pointRefs, fullHavoc)

	// ---- havoc
	hst := st.clone()
	// (the cells are havocked after the components: a local slice or pointer at the loop head is
	// well-formed with respect to the allocation state of the loop head, not of the loop entry)
	for _, c := range sortedKeys(compsWritten) {
		srt := ex.compSort[c]
		old := ex.comp(hst, c, srt)
		nw := ex.sc.fresh("hv_"+trunc(sanitize(c), 20), srt)
		if c == compAlloc {
			ex.sc.assert(fmt.Sprintf("(forall ((r Int)) (! (=> (select %s r) (select %s r)) :pattern ((select %s r))))", old, nw, nw))
			hst.heap[c] = nw
			continue
		}
		if c == "envlog|len" || c == "clock" {
			ex.sc.assert(mkCmp(">=", nw, old)) // the trace only grows, the clock only advances
			hst.heap[c] = nw
			continue
		}
		if fullHavoc[c] {
			if freshOnly[c] {
				// objects that existed before the loop keep their contents, except
				// at the loop-invariant references that are written explicitly
				a0 := ex.comp(st, compAlloc, sArr(sInt, sBool))
				if sinceFnEntry[c] {
					a0 = fr.entryAlloc
				}
				excl := []string{mkSelect(a0, "r")}
				for _, r := range pointRefs[c] {
					excl = append(excl, mkNot(mkEq("r", r)))
				}
				ex.sc.assert(fmt.Sprintf("(forall ((r Int)) (! (=> %s (= (select %s r) (select %s r))) :pattern ((select %s r))))", mkAnd(excl...), nw, old, nw))
			}
			hst.heap[c] = nw
			continue
		}
		t := old
		for _, r := range pointRefs[c] {
			t = mkStore(t, r, mkSelect(nw, r))
		}
		hst.heap[c] = ex.sc.define("hvp", srt, t)
	}
	ex.havocCells(fr, hst, cells)
	ex.envlogFrame(st, hst)
	// values reachable after havoc are still well-formed: re-assume ranges of
	// scalar leaves on load (done in load); map iteration exhaustion facts
	// must not be used when the loop modifies the map's domain
	for _, ck := range cells {
		if t, isHidden := ex.hiddenCells[ck]; isHidden && t == nil {
			// the map this iterator ranges over
			var iterated *iterState
			for _, v := range fr.regs {
				if v.It != nil && v.It.posCell == ck {
					iterated = v.It
				}
			}
			for c := range compsWritten {
				if !strings.HasPrefix(c, "Mdom|") {
					continue
				}
				// a different map type cannot be the iterated map; the same type is
				// harmless when every written map is provably another object
				if iterated != nil && c != compMdom(iterated.coll.T) {
					continue
				}
				// writes at loop-invariant references: each provably another object;
				// writes at varying references: only to objects allocated during the loop
				// (or since function entry), while the iterated map existed before
				other := iterated != nil && (!fullHavoc[c] || freshOnly[c])
				if other {
					for _, r := range pointRefs[c] {
						if !ex.quickProve(mkImp(reach, mkNot(mkEq(r, iterated.coll.term())))) {
							other = false
						}
					}
				}
				if other && fullHavoc[c] {
					a0 := ex.comp(st, compAlloc, sArr(sInt, sBool))
					if sinceFnEntry[c] {
						a0 = fr.entryAlloc
					}
					if !ex.quickProve(mkImp(reach, mkSelect(a0, iterated.coll.term()))) {
						other = false
					}
				}
				if !other && !iterSafe[ck] {
					ex.mapIterModified[ck] = true
				}
			}
		}
	}

	// assume annotated invariants for an arbitrary iteration
	for _, inv := range lc.invs {
		ex.sc.assert(mkImp(reach, inv.eval(ex, fr, hst)))
	}

	// ---- Houdini-lite over the candidates. Lower bounds of counters that the loop
	// only ever increments are kept without asking (they are still proved as
	// inv-step obligations of the real run).
	var sure, rest []invariant
	for _, c := range cands {
		if c.sure {
			sure = append(sure, c)
		} else {
			rest = append(rest, c)
		}
	}
	for _, c := range sure {
		ex.sc.assert(mkImp(reach, c.eval(ex, fr, hst)))
		lc.invs = append(lc.invs, c)
	}
	cands = rest
	// A loop nested in another loop (or in a callee inlined in a loop) is analysed
	// once per trial execution of the enclosing body. The candidate generator
	// restricts itself to the set confirmed the previous time; that set is confirmed
	// again by proof in this context (one round when it still holds), never assumed.
	if len(cands) > 0 {
		cands = ex.houdini(fr, lp, reach, hst, cands)
	}
	if hk := ex.houdiniKey(fr, lp); ex.hinted[hk] > 0 && len(cands) < ex.hinted[hk] {
		// the set from the hints file does not hold as a whole on this tree:
		// forget it and search among all candidates
		delete(ex.hinted, hk)
		delete(ex.houdiniCache, hk)
		cands = nil
		for _, c := range ex.inferCandidates(fr, lp, reach, st, cells, pointRefs, fullHavoc) {
			if !c.sure {
				cands = append(cands, c)
			}
		}
		if len(cands) > 0 {
			cands = ex.houdini(fr, lp, reach, hst, cands)
		}
	} else {
		delete(ex.hinted, hk) // confirmed in this run: from now on an ordinary cache entry
	}
	keptSet := map[string]bool{}
	for _, c := range cands {
		keptSet[c.id] = true
	}
	ex.houdiniCache[ex.houdiniKey(fr, lp)] = keptSet
	for _, c := range cands {
		ex.sc.assert(mkImp(reach, c.eval(ex, fr, hst)))
		lc.invs = append(lc.invs, c)
	}
	// termination bookkeeping (reported in the evidence)
	if ex.record {
		kind := "no variant: termination of this loop is not proved"
		switch {
		case spec != nil && spec.Decreases != nil:
			kind = "annotated variant"
		case ex.loopIsRange(fr, lp):
			kind = "range loop (finite by construction)"
		case ex.loopIsCounting(lp, cells):
			kind = "counting loop (counter only incremented, compared with a loop-invariant bound)"
		}
		ex.loopKinds = append(ex.loopKinds, fmt.Sprintf("%s loop %d: %s", shortFn(fr.fn), lp.ordinal, kind))
	}
	// variant
	if spec != nil && spec.Decreases != nil {
		d := spec.Decreases
		lc.variant = func(e *Exec, f *Frame, s *State) string { return e.evalLoopExpr(f, s, d, lp) }
		lc.varAtHead = ex.sc.define("variant", sInt, lc.variant(ex, fr, hst))
	}
	return reach, hst
}

// backEdge is called when control flows back to a loop header.
func (ex *Exec) backEdge(fr *Frame, lp *loopRec, cond string, st *State) {
	if ex.trialBack != nil && ex.trialBack(lp.header, cond, st) {
		return
	}
	lc := ex.loopCtxs[loopKey{fr.id, lp.header}]
	if lc == nil {
		return
	}
	pos := lp.header.Instrs[0].Pos()
	for _, inv := range lc.invs {
		k := "inv-step"
		d := "loop invariant preserved: " + inv.desc
		if inv.kind == "inferred" {
			d = "inferred loop invariant preserved: " + inv.desc
		}
		ex.oblige(fr, k, inv.tags, pos, d, cond, inv.eval(ex, fr, st))
	}
	if lc.variant != nil {
		v := lc.variant(ex, fr, st)
		ex.oblige(fr, "variant", nil, pos, "loop variant decreases and is bounded below", cond,
			mkAnd(mkCmp("<", v, lc.varAtHead), mkCmp(">=", lc.varAtHead, "0")))
	}
}

// ---------------------------------------------------------------------------
// inference

func (ex *Exec) inferCandidates(fr *Frame, lp *loopRec, reach string, st *State, cells []cellKey, pointRefs map[string][]string, fullHavoc map[string]bool) []invariant {
	var out []invariant
	for _, ck := range cells {
		ck := ck
		v, ok := st.cells[ck]
		if !ok || v.T == nil || len(v.L) == 0 {
			continue
		}
		name := ck.a.Comment
		if name == "" {
			name = "tmp"
		}
		if _, _, isInt := intInfo(v.T); isInt && len(v.L) == 1 {
			init := v.L[0]
			out = append(out, invariant{kind: "inferred", desc: name + " >= its value at loop entry", sure: onlyIncremented(lp, ck.a),
				eval: func(e *Exec, f *Frame, s *State) string { return cellCmp(s, ck, 0, ">=", init) }})
			out = append(out, invariant{kind: "inferred", desc: name + " <= its value at loop entry",
				eval: func(e *Exec, f *Frame, s *State) string { return cellCmp(s, ck, 0, "<=", init) }})
			continue
		}
		if _, isSlice := v.T.Underlying().(*types.Slice); isSlice && len(v.L) == 4 {
			// a slice variable that only grows or stays
			initLen := v.L[2]
			out = append(out, invariant{kind: "inferred", desc: "len(" + name + ") >= its value at loop entry",
				eval: func(e *Exec, f *Frame, s *State) string { return cellCmp(s, ck, 2, ">=", initLen) }})
		}
	}
	// guard-derived bounds
	out = append(out, ex.guardCandidates(fr, lp, st, cells)...)
	// equal lengths of slice fields of one object
	type fld struct {
		comp string
		ref  string
	}
	var lens []fld
	for _, c := range sortedKeys(pointRefs) {
		if fullHavoc[c] || !strings.HasPrefix(c, "H|") {
			continue
		}
		if !ex.eng.isSliceLenComp(c) {
			continue
		}
		for _, r := range pointRefs[c] {
			lens = append(lens, fld{c, r})
		}
	}
	for i := 0; i < len(lens); i++ {
		for j := i + 1; j < len(lens); j++ {
			a, b := lens[i], lens[j]
			if a.ref != b.ref || rootOfComp(a.comp) != rootOfComp(b.comp) {
				continue
			}
			out = append(out, invariant{kind: "inferred", desc: fmt.Sprintf("equal lengths of %s and %s", ex.eng.compLeafName(a.comp), ex.eng.compLeafName(b.comp)),
				eval: func(e *Exec, f *Frame, s *State) string {
					return mkEq(mkSelect(e.comp(s, a.comp, ""), a.ref), mkSelect(e.comp(s, b.comp, ""), b.ref))
				}})
		}
	}
	// stable names; a loop analysed before (nested loop re-entered by a trial run of
	// the enclosing body) only retries the candidates confirmed that time
	for i, id := range candIDs(out) {
		out[i].id = id
	}
	if prev, ok := ex.houdiniCache[ex.houdiniKey(fr, lp)]; ok {
		var sub []invariant
		for _, c := range out {
			if c.sure || prev[c.id] {
				sub = append(sub, c)
			}
		}
		out = sub
	}
	// keep only candidates that hold on entry
	goals := make([][]string, len(out))
	for i, c := range out {
		goals[i] = []string{mkImp(reach, c.eval(ex, fr, st))}
	}
	res := ex.quickProveAll(goals)
	var kept []invariant
	for i, c := range out {
		if res[i] {
			kept = append(kept, c)
		}
	}
	return kept
}

// quickProveAll decides, in parallel, whether every goal of each group holds.
func (ex *Exec) quickProveAll(groups [][]string) []bool {
	return ex.quickProveAllT(groups, 3)
}

// quickProveAllT: only "unsat" counts as proved; limitS bounds each query.
func (ex *Exec) quickProveAllT(groups [][]string, limitS int) []bool {
	t0 := time.Now()
	var nTimeout int32
	defer func() {
		if os.Getenv("GOVC_DEBUG") != "" {
			fmt.Fprintf(os.Stderr, "quickProveAll: groups=%d timeouts=%d lines=%d %.1fs\n", len(groups), nTimeout, len(ex.sc.lines), time.Since(t0).Seconds())
		}
	}()
	res := make([]bool, len(groups))
	var wg sync.WaitGroup
	sem := make(chan struct{}, 16)
	base := append(prelude("ALL"), ex.sc.lines...)
	for i, gs := range groups {
		res[i] = true
		var todo []string
		for _, g := range gs {
			if g == "true" {
				continue
			}
			if g == "false" {
				res[i] = false
			}
			todo = append(todo, g)
		}
		if !res[i] || len(todo) == 0 {
			continue
		}
		wg.Add(1)
		go func(i int, todo []string) {
			defer wg.Done()
			sem <- struct{}{}
			defer func() { <-sem }()
			lines := append([]string{}, base...)
			lines = append(lines, "(assert (not "+mkAnd(todo...)+"))", "(check-sat)")
			file := writeQuery("houdini", lines)
			// fixed seed and a generous limit: the inferred set must not depend on
			// VERIF_SEED or on machine load
			st, _, _ := runSolverSeed(solvers[0], file, limitS, 0)
			if st != "unsat" && st != "sat" && st != "unknown" {
				atomic.AddInt32(&nTimeout, 1)
			}
			if !keepScratch {
				removeFile(file)
			}
			if st != "unsat" {
				res[i] = false
			}
		}(i, todo)
	}
	wg.Wait()
	ex.eng.sideQueries += len(groups)
	return res
}

func rootOfComp(c string) string {
	p := strings.Split(c, "|")
	if len(p) >= 2 {
		return p[1]
	}
	return c
}

// quickProve decides a small side query synchronously (z3-new, 2 s).
func (ex *Exec) quickProve(goal string) bool {
	return ex.quickProveT(goal, 2)
}

func (ex *Exec) quickProveT(goal string, limitS int) bool {
	lines := append(prelude("ALL"), ex.sc.lines...)
	lines = append(lines, "(assert (not "+goal+"))", "(check-sat)")
	file := writeQuery("houdini", lines)
	st, _, _ := runSolver(solvers[0], file, limitS)
	if !keepScratch {
		removeFile(file)
	}
	ex.eng.sideQueries++
	return st == "unsat"
}

func (ex *Exec) houdini(fr *Frame, lp *loopRec, reach string, hst *State, cands []invariant) []invariant {
	confirmed := false
	maxRounds := len(cands) + 2
	for round := 0; round < maxRounds && len(cands) > 0; round++ {
		t := ex.cloneForTrial()
		tf := fr.cloneRegs()
		ts := hst.clone()
		for _, c := range cands {
			t.sc.assert(mkImp(reach, c.eval(t, tf, ts)))
		}
		backs := t.runLoopBody(tf, lp, reach, ts)
		var kept []invariant
		dropped := false
		// guard: if the solver claims that no back edge is reachable under the
		// assumed candidates, every candidate is vacuously "preserved" (contradictory
		// candidate set, or an unreliable answer): infer nothing for this loop
		var anyBack []string
		for _, b := range backs {
			anyBack = append(anyBack, b.cond)
		}
		if len(backs) == 0 || t.quickProveAllT([][]string{{mkNot(mkOr(anyBack...))}}, 1)[0] {
			return nil
		}
		groups := make([][]string, len(cands))
		for i, c := range cands {
			for _, b := range backs {
				groups[i] = append(groups[i], mkImp(b.cond, c.eval(t, b.fr, b.st)))
			}
		}
		res := t.quickProveAll(groups)
		if os.Getenv("GOVC_DEBUG") != "" {
			for i, c := range cands {
				fmt.Fprintf(os.Stderr, "houdini %s#%d round %d: %-40s backs=%d proved=%v\n", shortFn(fr.fn), lp.ordinal, round, c.desc, len(backs), res[i])
			}
		}
		for i, c := range cands {
			if res[i] {
				kept = append(kept, c)
			} else {
				dropped = true
			}
		}
		cands = kept
		if !dropped {
			confirmed = true
			break
		}
	}
	if !confirmed {
		return nil // never assume a candidate set that was not confirmed as a whole
	}
	return cands
}

func (ex *Exec) houdiniKey(fr *Frame, lp *loopRec) string {
	k := fmt.Sprintf("#%d", lp.ordinal)
	for f := fr; f != nil; f = f.parent {
		k = shortFn(f.fn) + "/" + k
	}
	return ex.hintPrefix + k
}

// candIDs names candidates by description plus ordinal among equal descriptions.
func candIDs(cands []invariant) []string {
	seen := map[string]int{}
	out := make([]string, len(cands))
	for i, c := range cands {
		seen[c.desc]++
		out[i] = fmt.Sprintf("%s@%d", c.desc, seen[c.desc])
	}
	return out
}

// guardCandidates derives "cell <= bound" candidates from comparisons inside
// the loop whose other operand is available before the loop.
func (ex *Exec) guardCandidates(fr *Frame, lp *loopRec, st *State, cells []cellKey) []invariant {
	var out []invariant
	isCell := map[*ssa.Alloc]bool{}
	for _, ck := range cells {
		isCell[ck.a] = true
	}
	// value -> (cell, constant offset) when value == load(cell) + k
	var cellOf func(v ssa.Value, depth int) (*ssa.Alloc, int64, bool)
	cellOf = func(v ssa.Value, depth int) (*ssa.Alloc, int64, bool) {
		if depth > 3 {
			return nil, 0, false
		}
		switch x := v.(type) {
		case *ssa.UnOp:
			if a, ok := x.X.(*ssa.Alloc); ok && x.Op.String() == "*" && isCell[a] {
				return a, 0, true
			}
		case *ssa.BinOp:
			if c, ok := x.Y.(*ssa.Const); ok && (x.Op.String() == "+" || x.Op.String() == "-") {
				if a, k, ok2 := cellOf(x.X, depth+1); ok2 {
					if b, ok3 := constBig(c); ok3 && b.IsInt64() {
						if x.Op.String() == "+" {
							return a, k + b.Int64(), true
						}
						return a, k - b.Int64(), true
					}
				}
			}
		case *ssa.Convert:
			return cellOf(x.X, depth+1)
		}
		return nil, 0, false
	}
	// bound terms available at the header: SSA values defined outside the loop
	boundTerm := func(v ssa.Value) (string, bool) {
		switch x := v.(type) {
		case *ssa.Const:
			if b, ok := constBig(x); ok {
				return numBig(b), true
			}
			return "", false
		}
		if ins, ok := v.(ssa.Instruction); ok {
			if lp.blocks[ins.Block()] {
				// computed inside the loop: usable if it is len() of an unmodified cell
				if call, ok := v.(*ssa.Call); ok {
					if b, ok := call.Call.Value.(*ssa.Builtin); ok && b.Name() == "len" {
						if ld, ok := call.Call.Args[0].(*ssa.UnOp); ok {
							if a, ok := ld.X.(*ssa.Alloc); ok && !isCell[a] && ex.isSimpleCell(a) {
								cv, ok := st.cells[cellKey{fr.id, a}]
								if ok && len(cv.L) == 4 {
									return cv.L[2], true
								}
								if ok && len(cv.L) == 1 && isStringType(cv.T) {
									return app("slen", cv.L[0]), true
								}
							}
						}
					}
				}
				if ld, ok := v.(*ssa.UnOp); ok && ld.Op.String() == "*" {
					if a, ok := ld.X.(*ssa.Alloc); ok && !isCell[a] && ex.isSimpleCell(a) {
						cv, ok := st.cells[cellKey{fr.id, a}]
						if ok && len(cv.L) == 1 && cv.T != nil {
							if _, _, isInt := intInfo(cv.T); isInt {
								return cv.L[0], true
							}
						}
					}
				}
				return "", false
			}
		}
		if r, ok := fr.regs[v]; ok && len(r.L) == 1 && r.T != nil {
			if _, _, isInt := intInfo(r.T); isInt {
				return r.L[0], true
			}
		}
		return "", false
	}
	seen := map[string]bool{}
	for _, b := range sortedBlocks(lp.blocks) {
		for _, ins := range b.Instrs {
			bo, ok := ins.(*ssa.BinOp)
			if !ok {
				continue
			}
			op := bo.Op.String()
			if op != "<" && op != "<=" && op != ">" && op != ">=" && op != "!=" && op != "==" {
				continue
			}
			for side := 0; side < 2; side++ {
				l, r := bo.X, bo.Y
				if side == 1 {
					l, r = r, l
				}
				a, _, ok := cellOf(l, 0)
				if !ok {
					continue
				}
				bt, ok := boundTerm(r)
				if !ok {
					continue
				}
				ck := cellKey{fr.id, a}
				key := fmt.Sprintf("%p|%s", a, bt)
				if seen[key] {
					continue
				}
				seen[key] = true
				nm := a.Comment
				if nm == "rangeindex" && bo.Op.String() == "<" && side == 0 && b == lp.header {
					// (only the loop's own header test: the index of a nested range loop
					// equals its length when that loop has finished)
					// the hidden index of a range loop: -1 <= rangeindex <= len-1 (proved as obligations)
					out = append(out, invariant{kind: "inferred", desc: "rangeindex <= len-1", sure: true,
						eval: func(e *Exec, f *Frame, s *State) string {
							return cellCmp(s, ck, 0, "<=", mkSub(bt, "1"))
						}})
				}
				for _, d := range []int64{0, 1} {
					d := d
					out = append(out, invariant{kind: "inferred", desc: fmt.Sprintf("%s <= bound%+d", nm, d),
						eval: func(e *Exec, f *Frame, s *State) string {
							return cellCmp(s, ck, 0, "<=", mkAdd(bt, num(d)))
						}})
				}
				out = append(out, invariant{kind: "inferred", desc: fmt.Sprintf("%s >= bound", nm),
					eval: func(e *Exec, f *Frame, s *State) string { return cellCmp(s, ck, 0, ">=", bt) }})
			}
		}
	}
	return out
}

func cellCmp(s *State, ck cellKey, leaf int, op, bound string) string {
	v, ok := s.cells[ck]
	if !ok || len(v.L) <= leaf {
		return "true"
	}
	return mkCmp(op, v.L[leaf], bound)
}

// expandDefs replaces every symbol created after n0 by its definition.
func (sc *Script) expandDefs(term string, n0 int) string {
	for iter := 0; iter < 50; iter++ {
		changed := false
		term = symRe.ReplaceAllStringFunc(term, func(name string) string {
			m := symRe.FindStringSubmatch(name)
			n, _ := strconv.Atoi(m[1])
			if n <= n0 {
				return name
			}
			if def, ok := sc.defOf[name]; ok {
				changed = true
				return def
			}
			return name
		})
		if !changed {
			break
		}
	}
	return term
}

// isFreshRefTerm: the reference denotes an object allocated after script
// position n0 (possibly an if-then-else over such objects).
func (ex *Exec) isFreshRefTerm(term string, n0 int, depth int) bool {
	if depth > 60 {
		return false
	}
	term = strings.TrimSpace(term)
	if ex.freshRefs[term] {
		m := symRe.FindStringSubmatch(term)
		if m != nil {
			n, _ := strconv.Atoi(m[1])
			return n > n0
		}
		return false
	}
	if def, ok := ex.sc.defOf[term]; ok {
		return ex.isFreshRefTerm(def, n0, depth+1)
	}
	if strings.HasPrefix(term, "(ite ") {
		parts := splitSexp(term[5 : len(term)-1])
		if len(parts) == 3 {
			return ex.isFreshRefTerm(parts[1], n0, depth+1) && ex.isFreshRefTerm(parts[2], n0, depth+1)
		}
	}
	if os.Getenv("GOVC_DEBUG") != "" {
		fmt.Fprintf(os.Stderr, "    not fresh: %s\n", trunc(term, 200))
	}
	return false
}

// splitSexp splits the top-level elements of an s-expression body.
func splitSexp(s string) []string {
	var out []string
	depth := 0
	start := -1
	for i := 0; i < len(s); i++ {
		c := s[i]
		switch {
		case c == '(':
			if depth == 0 && start < 0 {
				start = i
			}
			depth++
		case c == ')':
			depth--
			if depth == 0 && start >= 0 {
				out = append(out, s[start:i+1])
				start = -1
			}
		case c == ' ' || c == '\n':
			if depth == 0 && start >= 0 {
				out = append(out, s[start:i])
				start = -1
			}
		default:
			if depth == 0 && start < 0 {
				start = i
			}
		}
	}
	if start >= 0 {
		out = append(out, s[start:])
	}
	return out
}

// onlyIncremented: every store to the cell inside the loop writes cell + positive constant.
func onlyIncremented(lp *loopRec, a *ssa.Alloc) bool {
	n := 0
	for b := range lp.blocks {
		for _, ins := range b.Instrs {
			st, ok := ins.(*ssa.Store)
			if !ok || rootAlloc(st.Addr) != a {
				continue
			}
			if st.Addr != ssa.Value(a) {
				return false
			}
			n++
			bo, ok := st.Val.(*ssa.BinOp)
			if !ok || bo.Op.String() != "+" {
				return false
			}
			ld, ok := bo.X.(*ssa.UnOp)
			if !ok || ld.Op.String() != "*" || ld.X != ssa.Value(a) {
				return false
			}
			c, ok := bo.Y.(*ssa.Const)
			if !ok {
				return false
			}
			if v, ok := constBig(c); !ok || v.Sign() <= 0 {
				return false
			}
		}
	}
	return n > 0
}

func (ex *Exec) loopIsRange(fr *Frame, lp *loopRec) bool {
	for b := range lp.blocks {
		for _, ins := range b.Instrs {
			if _, ok := ins.(*ssa.Next); ok {
				return true
			}
			if st, ok := ins.(*ssa.Store); ok {
				if a, ok := st.Addr.(*ssa.Alloc); ok && a.Comment == "rangeindex" {
					return true
				}
			}
		}
	}
	return false
}

func (ex *Exec) loopIsCounting(lp *loopRec, cells []cellKey) bool {
	// the header's exit test compares an only-incremented cell with a value defined outside the loop
	last := lp.header.Instrs[len(lp.header.Instrs)-1]
	iff, ok := last.(*ssa.If)
	if !ok {
		return false
	}
	bo, ok := iff.Cond.(*ssa.BinOp)
	if !ok || (bo.Op.String() != "<" && bo.Op.String() != "<=" && bo.Op.String() != "!=") {
		return false
	}
	ld, ok := bo.X.(*ssa.UnOp)
	if !ok {
		if cv, ok2 := bo.X.(*ssa.Convert); ok2 {
			ld, ok = cv.X.(*ssa.UnOp)
		}
	}
	if !ok || ld == nil {
		return false
	}
	a, ok := ld.X.(*ssa.Alloc)
	if !ok || !onlyIncremented(lp, a) {
		return false
	}
	return true
}
