package main

// Assumed contracts for code outside the module, written as generators of
// fresh results plus assumptions. Each entry states only what the library
// documents; DESIGN-appendix-specs.md §E is the human-readable list. Every
// entry used by a check is reported in that check's evidence.

import (
	"sort"
	"fmt"
	"go/token"
	"go/types"
	"regexp/syntax"
	"strings"

	"golang.org/x/tools/go/ssa"
)

type intrinsic func(ex *Exec, fr *Frame, st *State, reach string, args []Val, sig *types.Signature, pos token.Pos) Val
type ifaceIntrinsic func(ex *Exec, fr *Frame, st *State, reach string, recv Val, args []Val, sig *types.Signature, pos token.Pos) Val

var intrinsics = map[string]intrinsic{}
var ifaceIntrinsics = map[string]ifaceIntrinsic{}

var (
	tString = types.Typ[types.String]
	tInt    = types.Typ[types.Int]
	tBool   = types.Typ[types.Bool]
)

func slen(s string) string { return app("slen", s) }

func (ex *Exec) freshStr(hint string) string { return ex.sc.fresh(hint, sStr) }
func (ex *Exec) freshInt(hint string) string { return ex.sc.fresh(hint, sInt) }

func (eng *Engine) errorType() types.Type { return types.Universe.Lookup("error").Type() }
func (eng *Engine) errnoType() types.Type {
	p := eng.prog.ImportedPackage("syscall")
	return p.Pkg.Scope().Lookup("Errno").Type()
}

// errIs: the abstract errors.Is relation.
func (ex *Exec) errIs(a, b Val) string {
	if _, ok := ex.sc.decls["err_is"]; !ok {
		ex.sc.fun("err_is", []string{sInt, sInt, sInt, sInt}, sBool)
		ex.sc.axiom("(forall ((t Int) (p Int)) (! (=> (not (= t 0)) (err_is t p t p)) :pattern ((err_is t p t p))))")
		ex.sc.axiom("(forall ((t Int) (p Int)) (! (= (err_is 0 0 t p) (= t 0)) :pattern ((err_is 0 0 t p))))")
		ex.sc.axiom("(forall ((t Int) (p Int)) (! (=> (not (= t 0)) (not (err_is t p 0 0))) :pattern ((err_is t p 0 0))))")
		en := ex.tid(ex.eng.errnoType())
		ex.sc.axiom(fmt.Sprintf("(forall ((p Int) (q Int)) (! (= (err_is %s p %s q) (= p q)) :pattern ((err_is %s p %s q))))", en, en, en, en))
	}
	return app("err_is", a.L[0], a.L[1], b.L[0], b.L[1])
}

func (ex *Exec) freshErr(st *State, hint string) Val {
	v := ex.freshVal(st, ex.eng.errorType(), hint)
	return v
}

func (ex *Exec) nonNilErr(st *State, hint string) Val {
	v := ex.freshErr(st, hint)
	ex.sc.assert(mkCmp(">", v.L[0], "0"))
	return v
}

func (ex *Exec) sentinel(st *State, pkg, name string) Val {
	p := ex.eng.prog.ImportedPackage(pkg)
	if p == nil {
		panic(unsupported("package " + pkg + " not loaded"))
	}
	g, ok := p.Members[name].(*ssa.Global)
	if !ok {
		panic(unsupported("no global " + pkg + "." + name))
	}
	v := ex.load(st, ex.ptrLV(ex.globalPtr(g)))
	if !ex.sentinelInit[pkg+"."+name] {
		ex.sentinelInit[pkg+"."+name] = true
		g0 := ex.load(newState(), ex.ptrLV(ex.globalPtr(g)))
		ex.sc.axiom(mkCmp(">", g0.L[0], "0"))
	}
	return v
}

// strSlice reads element j of a []string value.
func (ex *Exec) strElem(st *State, s Val, j string) string {
	return mkSelect(ex.elemArr(st, tString, 0, s.L[0]), mkAdd(s.L[1], j))
}

func (ex *Exec) freshStrSlice(st *State, t types.Type, hint string) Val {
	v := ex.freshSlice(st, t, hint)
	return v
}

// litOf returns the literal behind a string term if it is one.
func (ex *Exec) litOf(term string) (string, bool) {
	if term == "STR_EMPTY" {
		return "", true
	}
	for lit, n := range ex.sc.strLits {
		if n == term {
			return lit, true
		}
	}
	return "", false
}

// matchAt: the pattern occurs in s at position j (pattern literal => bytewise).
func (ex *Exec) matchAt(s, pat, j string) string {
	if lit, ok := ex.litOf(pat); ok && len(lit) <= 8 {
		var cs []string
		for k := 0; k < len(lit); k++ {
			cs = append(cs, mkEq(app("sat", s, mkAdd(j, num(int64(k)))), num(int64(lit[k]))))
		}
		return mkAnd(cs...)
	}
	return mkEq(app("ssub", s, j, mkAdd(j, slen(pat))), pat)
}

func (ex *Exec) indexFacts(s, pat, r string) {
	n := slen(s)
	m := slen(pat)
	ex.sc.assert(mkAnd(mkCmp(">=", r, "(- 1)"), mkImp(mkCmp(">=", r, "0"), mkCmp("<=", mkAdd(r, m), n))))
	ex.sc.assert(mkImp(mkCmp(">=", r, "0"), ex.matchAt(s, pat, r)))
	ex.sc.assert(mkImp(mkCmp(">", m, n), mkEq(r, "(- 1)")))
	// first occurrence / no occurrence
	lim := mkIte(mkCmp(">=", r, "0"), r, mkAdd(mkSub(n, m), "1"))
	ex.sc.assert(fmt.Sprintf("(forall ((j Int)) (=> (and (<= 0 j) (< j %s)) (not %s)))", lim, ex.matchAt(s, pat, "j")))
}

func (ex *Exec) byteStr(c string) string {
	// a one-byte string with byte c
	ex.sc.fun("str_byte", []string{sInt}, sStr)
	t := app("str_byte", c)
	ex.sc.axiom(mkAnd(mkEq(slen(t), "1"), mkEq(app("sat", t, "0"), c)))
	return t
}

// parentOf: s was defined as (ssub p lo hi).
func (ex *Exec) parentOf(s string) (p, lo, hi string, ok bool) {
	def, isDef := ex.sc.defOf[s]
	if !isDef || !strings.HasPrefix(def, "(ssub ") {
		return "", "", "", false
	}
	parts := splitSexp(def[6 : len(def)-1])
	if len(parts) != 3 {
		return "", "", "", false
	}
	return parts[0], parts[1], parts[2], true
}

func (ex *Exec) indexByteFacts(s, c, r string) {
	if p, lo, hi, ok := ex.parentOf(s); ok {
		// the same facts in terms of the string s is a substring of (they follow from
		// the substring axioms; stated so that triggers on the parent string fire)
		inb := mkAnd(mkCmp("<=", "0", lo), mkCmp("<=", lo, hi), mkCmp("<=", hi, slen(p)))
		ex.sc.assert(mkImp(mkAnd(inb, mkCmp(">=", r, "0")), mkEq(app("sat", p, mkAdd(lo, r)), c)))
		lim := mkIte(mkCmp(">=", r, "0"), mkAdd(lo, r), hi)
		ex.sc.assert(mkImp(inb, fmt.Sprintf("(forall ((j Int)) (! (=> (and (<= %s j) (< j %s)) (not (= (sat %s j) %s))) :pattern ((sat %s j))))", lo, lim, p, c, p)))
	}
	n := slen(s)
	ex.sc.assert(mkAnd(mkCmp(">=", r, "(- 1)"), mkCmp("<", r, n)))
	ex.sc.assert(mkImp(mkCmp(">=", r, "0"), mkEq(app("sat", s, r), c)))
	lim := mkIte(mkCmp(">=", r, "0"), r, n)
	ex.sc.assert(fmt.Sprintf("(forall ((j Int)) (! (=> (and (<= 0 j) (< j %s)) (not (= (sat %s j) %s))) :pattern ((sat %s j))))", lim, s, c, s))
}

func init() {
	reg := func(name string, f intrinsic) { intrinsics[name] = f }

	// ---- strings / bytes
	reg("strings.Index", func(ex *Exec, fr *Frame, st *State, reach string, a []Val, sig *types.Signature, pos token.Pos) Val {
		r := ex.freshInt("idx")
		ex.indexFacts(a[0].term(), a[1].term(), r)
		return scalar(tInt, r)
	})
	reg("strings.IndexByte", func(ex *Exec, fr *Frame, st *State, reach string, a []Val, sig *types.Signature, pos token.Pos) Val {
		r := ex.freshInt("idx")
		ex.indexByteFacts(a[0].term(), a[1].term(), r)
		return scalar(tInt, r)
	})
	reg("strings.IndexRune", func(ex *Exec, fr *Frame, st *State, reach string, a []Val, sig *types.Signature, pos token.Pos) Val {
		r := ex.freshInt("idx")
		s, c := a[0].term(), a[1].term()
		ex.sc.assert(mkAnd(mkCmp(">=", r, "(- 1)"), mkCmp("<", r, slen(s))))
		if lit, ok := isNumLit(c); ok && lit.IsInt64() && lit.Int64() >= 0 && lit.Int64() < 128 {
			ex.indexByteFacts(s, c, r)
		}
		return scalar(tInt, r)
	})
	reg("strings.IndexFunc", func(ex *Exec, fr *Frame, st *State, reach string, a []Val, sig *types.Signature, pos token.Pos) Val {
		r := ex.freshInt("idx")
		s := a[0].term()
		ex.sc.assert(mkAnd(mkCmp(">=", r, "(- 1)"), mkCmp("<", r, slen(s))))
		return scalar(tInt, r)
	})
	reg("bytes.Index", func(ex *Exec, fr *Frame, st *State, reach string, a []Val, sig *types.Signature, pos token.Pos) Val {
		r := ex.freshInt("idx")
		s := ex.bytesToString(st, a[0])
		p := ex.bytesToString(st, a[1])
		ex.indexFacts(s, p, r)
		return scalar(tInt, r)
	})
	reg("strings.HasPrefix", func(ex *Exec, fr *Frame, st *State, reach string, a []Val, sig *types.Signature, pos token.Pos) Val {
		s, p := a[0].term(), a[1].term()
		r := ex.sc.define("hasprefix", sBool, mkAnd(mkCmp(">=", slen(s), slen(p)), ex.matchAt(s, p, "0")))
		return scalar(tBool, r)
	})
	reg("strings.HasSuffix", func(ex *Exec, fr *Frame, st *State, reach string, a []Val, sig *types.Signature, pos token.Pos) Val {
		s, p := a[0].term(), a[1].term()
		r := ex.sc.define("hassuffix", sBool, mkAnd(mkCmp(">=", slen(s), slen(p)), ex.matchAt(s, p, mkSub(slen(s), slen(p)))))
		return scalar(tBool, r)
	})
	trim := func(left, right bool) intrinsic {
		return func(ex *Exec, fr *Frame, st *State, reach string, a []Val, sig *types.Signature, pos token.Pos) Val {
			s := a[0].term()
			lo, hi := "0", slen(s)
			if left {
				lo = ex.freshInt("trimlo")
			}
			if right {
				hi = ex.freshInt("trimhi")
			}
			ex.sc.assert(mkAnd(mkCmp("<=", "0", lo), mkCmp("<=", lo, hi), mkCmp("<=", hi, slen(s))))
			r := ex.sc.define("trimmed", sStr, app("ssub", s, lo, hi))
			ex.sc.assert(mkEq(slen(r), mkSub(hi, lo)))
			if len(a) == 1 {
				ex.sc.fun("str_trimspace", []string{sStr}, sStr)
				ex.sc.assert(mkEq(app("str_trimspace", s), r))
			}
			ex.trimBounds[r] = [2]string{lo, hi}
			// cut set semantics
			cut := func(j string) string {
				c := app("sat", s, j)
				if len(a) == 1 { // TrimSpace: ASCII space set, or a non-ASCII byte
					return mkOr(mkAnd(mkCmp(">=", c, "9"), mkCmp("<=", c, "13")), mkEq(c, "32"), mkCmp(">=", c, "128"))
				}
				if lit, ok := ex.litOf(a[1].term()); ok {
					var cs []string
					for k := 0; k < len(lit); k++ {
						cs = append(cs, mkEq(c, num(int64(lit[k]))))
					}
					return mkOr(cs...)
				}
				return "true"
			}
			ncut := func(j string) string {
				c := app("sat", s, j)
				if len(a) == 1 {
					return mkNot(mkOr(mkAnd(mkCmp(">=", c, "9"), mkCmp("<=", c, "13")), mkEq(c, "32")))
				}
				if lit, ok := ex.litOf(a[1].term()); ok && isASCII(lit) {
					var cs []string
					for k := 0; k < len(lit); k++ {
						cs = append(cs, mkNot(mkEq(c, num(int64(lit[k])))))
					}
					return mkAnd(cs...)
				}
				return "true"
			}
			if left {
				ex.sc.assert(fmt.Sprintf("(forall ((j Int)) (=> (and (<= 0 j) (< j %s)) %s))", lo, cut("j")))
				ex.sc.assert(mkImp(mkCmp("<", lo, hi), ncut(lo)))
			}
			if right {
				ex.sc.assert(fmt.Sprintf("(forall ((j Int)) (=> (and (<= %s j) (< j (slen %s))) %s))", hi, s, cut("j")))
				ex.sc.assert(mkImp(mkCmp("<", lo, hi), ncut(mkSub(hi, "1"))))
			}
			return scalar(tString, r)
		}
	}
	reg("strings.TrimSpace", trim(true, true))
	reg("strings.Trim", trim(true, true))
	reg("strings.TrimRight", trim(false, true))
	reg("strings.TrimLeft", trim(true, false))
	caseFn := func(name string) intrinsic {
		return func(ex *Exec, fr *Frame, st *State, reach string, a []Val, sig *types.Signature, pos token.Pos) Val {
			ex.sc.fun(name, []string{sStr}, sStr)
			r := ex.sc.define(name, sStr, app(name, a[0].term()))
			// a string without ASCII letters of the other case (and without non-ASCII bytes) is unchanged
			lo, hi := "97", "122"
			if name == "str_lower" {
				lo, hi = "65", "90"
			}
			s0 := a[0].term()
			ex.sc.assert(mkImp(fmt.Sprintf("(forall ((i Int)) (! (=> (and (<= 0 i) (< i (slen %s))) (and (< (sat %s i) 128) (not (and (<= %s (sat %s i)) (<= (sat %s i) %s))))) :pattern ((sat %s i))))", s0, s0, lo, s0, s0, hi, s0), mkEq(r, s0)))
			ex.sc.assert(mkEq(slen(r), slen(s0)))
			return scalar(tString, r)
		}
	}
	reg("strings.ToLower", caseFn("str_lower"))
	reg("strings.ToUpper", caseFn("str_upper"))
	reg("strings.Split", func(ex *Exec, fr *Frame, st *State, reach string, a []Val, sig *types.Signature, pos token.Pos) Val {
		r := ex.freshStrSlice(st, sig.Results().At(0).Type(), "split")
		s, sep := a[0].term(), a[1].term()
		ex.splitFuns()
		n := app("split_n", s, sep)
		ex.sc.assert(mkEq(r.L[2], n))
		ex.sc.assert(mkCmp("<=", r.L[2], mkAdd(slen(s), "1")))
		// with a non-empty separator the parts tile s: part k is s[B(k):E(k)], B(0)=0,
		// B(k+1)=E(k)+len(sep), E(n-1)=len(s)
		nz := mkCmp(">", slen(sep), "0")
		el := ex.strElem(st, r, "k")
		ex.sc.assert(mkImp(nz, mkAnd(mkCmp(">=", n, "1"), mkEq(app("split_b", s, sep, "0"), "0"),
			mkEq(app("split_e", s, sep, mkSub(n, "1")), slen(s)))))
		ex.sc.assert(mkImp(nz, fmt.Sprintf("(forall ((k Int)) (! (=> (and (<= 0 k) (< k %s)) (and (= %s (ssub %s (split_b %s %s k) (split_e %s %s k))) (<= 0 (split_b %s %s k)) (<= (split_b %s %s k) (split_e %s %s k)) (<= (split_e %s %s k) (slen %s)) (=> (< (+ k 1) %s) (= (split_b %s %s (+ k 1)) (+ (split_e %s %s k) (slen %s)))))) :pattern (%s)))",
			n, el, s, s, sep, s, sep, s, sep, s, sep, s, sep, s, sep, s, n, s, sep, s, sep, sep, el)))
		// remember what the freshly allocated array was split from (used by strings.Join)
		ex.sc.assert(mkEq(r.L[1], "0"))
		ex.splits = append(ex.splits, splitRec{ref: r.L[0], src: s, sep: sep})
		return r
	})
	reg("strings.SplitN", func(ex *Exec, fr *Frame, st *State, reach string, a []Val, sig *types.Signature, pos token.Pos) Val {
		r := ex.freshStrSlice(st, sig.Results().At(0).Type(), "splitn")
		n := a[2].term()
		ex.sc.assert(mkImp(mkAnd(mkCmp(">", n, "0"), mkCmp(">", slen(a[1].term()), "0")), mkAnd(mkCmp(">=", r.L[2], "1"), mkCmp("<=", r.L[2], n))))
		ex.sc.assert(mkImp(mkEq(n, "0"), mkEq(r.L[2], "0")))
		ex.sc.assert(mkCmp("<=", r.L[2], mkAdd(slen(a[0].term()), "1")))
		return r
	})
	reg("strings.Fields", func(ex *Exec, fr *Frame, st *State, reach string, a []Val, sig *types.Signature, pos token.Pos) Val {
		r := ex.freshStrSlice(st, sig.Results().At(0).Type(), "fields")
		ex.sc.assert(mkCmp("<=", r.L[2], slen(a[0].term())))
		return r
	})
	reg("strings.Join", func(ex *Exec, fr *Frame, st *State, reach string, a []Val, sig *types.Signature, pos token.Pos) Val {
		r := ex.freshStr("joined")
		ex.sc.assert(mkImp(mkEq(a[0].L[2], "0"), mkEq(r, "STR_EMPTY")))
		ex.sc.assert(mkImp(mkEq(a[0].L[2], "1"), mkEq(r, ex.strElem(st, a[0], "0"))))
		// Join(Split(s, a), b) is s with every a replaced by b; stated for one-byte a and b,
		// and only when the elements still are the parts Split returned.
		// The array must be the one a recorded Split allocated (identity of a fresh allocation).
		ex.splitFuns()
		ref, off, ln, sep2 := a[0].L[0], a[0].L[1], a[0].L[2], a[1].term()
		for _, sp := range ex.splits {
			src, sep := sp.src, sp.sep
			tiles := fmt.Sprintf("(forall ((k Int)) (! (=> (and (<= 0 k) (< k %s)) (= %s (ssub %s (split_b %s %s k) (split_e %s %s k)))) :pattern (%s)))",
				ln, ex.strElem(st, a[0], "k"), src, src, sep, src, sep, ex.strElem(st, a[0], "k"))
			fact := fmt.Sprintf("(and (= (slen %s) (slen %s)) (forall ((j Int)) (! (=> (and (<= 0 j) (< j (slen %s))) (= (sat %s j) (ite (= (sat %s j) (sat %s 0)) (sat %s 0) (sat %s j)))) :pattern ((sat %s j)))))",
				r, src, src, r, src, sep, sep2, src, r)
			ex.sc.assert(mkImp(mkAnd(mkEq(ref, sp.ref), mkEq(off, "0"), mkEq(ln, app("split_n", src, sep)), mkEq(slen(sep), "1"), mkEq(slen(sep2), "1"), tiles), fact))
			ex.assumedUsed["strings.Join(strings.Split(s, a), b) replaces every a in s by b (one-byte a, b)"] = true
		}
		return scalar(tString, r)
	})
	reg("strings.Replace", func(ex *Exec, fr *Frame, st *State, reach string, a []Val, sig *types.Signature, pos token.Pos) Val {
		return scalar(tString, ex.freshStr("replaced"))
	})

	// ---- strconv
	parse := func(signed bool, atoi bool) intrinsic {
		return func(ex *Exec, fr *Frame, st *State, reach string, a []Val, sig *types.Signature, pos token.Pos) Val {
			s := a[0].term()
			base, bits := "10", "0"
			if !atoi {
				base, bits = a[1].term(), a[2].term()
			}
			rt := sig.Results().At(0).Type()
			v := ex.freshVal(st, rt, "parsed")
			err := ex.freshErr(st, "perr")
			ok := mkEq(err.L[0], "0")
			// range by bit size when it is a literal
			if b, isLit := isNumLit(bits); isLit && b.IsInt64() {
				n := uint(b.Int64())
				if n == 0 {
					n = 64
				}
				if n <= 64 {
					if signed {
						ex.sc.assert(mkAnd(mkCmp(">=", v.term(), numBig(new(big0).Neg(pow2(n-1)))), mkCmp("<", v.term(), numBig(pow2(n-1)))))
					} else {
						ex.sc.assert(mkAnd(mkCmp(">=", v.term(), "0"), mkCmp("<", v.term(), numBig(pow2(n)))))
					}
				}
			}
			esyn := ex.sentinel(st, "strconv", "ErrSyntax")
			erng := ex.sentinel(st, "strconv", "ErrRange")
			ex.sc.assert(mkImp(mkNot(ok), mkAnd(mkOr(ex.errIs(err, esyn), ex.errIs(err, erng)), mkNot(mkAnd(ex.errIs(err, esyn), ex.errIs(err, erng))))))
			ex.sc.assert(mkImp(mkNot(ok), mkImp(ex.errIs(err, esyn), mkEq(v.term(), "0"))))
			ex.sc.assert(mkImp(mkEq(slen(s), "0"), ex.errIs(err, esyn)))
			// functional part: value of the text
			fn := "str_uval"
			if signed {
				fn = "str_ival"
			}
			ex.sc.fun(fn, []string{sStr, sInt}, sInt)
			ex.sc.fun("str_isnum", []string{sStr, sInt, sBool}, sBool)
			sg := "false"
			if signed {
				sg = "true"
			}
			ex.sc.assert(mkEq(app("str_isnum", s, base, sg), mkNot(ex.errIs(err, esyn))))
			ex.sc.assert(mkImp(ok, mkEq(v.term(), app(fn, s, base))))
			// a numeric text parses iff its value fits the bit size (otherwise ErrRange)
			if b, isLit := isNumLit(bits); isLit && b.IsInt64() {
				n := uint(b.Int64())
				if n == 0 {
					n = 64
				}
				if n <= 64 {
					val := app(fn, s, base)
					var in string
					if signed {
						in = mkAnd(mkCmp(">=", val, numBig(new(big0).Neg(pow2(n-1)))), mkCmp("<", val, numBig(pow2(n-1))))
					} else {
						in = mkAnd(mkCmp(">=", val, "0"), mkCmp("<", val, numBig(pow2(n))))
					}
					ex.sc.assert(mkImp(app("str_isnum", s, base, sg), mkEq(ok, in)))
				}
			}
			if !signed {
				ex.sc.assert(mkImp(mkAnd(mkCmp(">", slen(s), "0"), mkOr(mkEq(app("sat", s, "0"), "45"), mkEq(app("sat", s, "0"), "43"))), ex.errIs(err, esyn)))
			}
			return Val{T: sig.Results(), Tup: []Val{v, err}}
		}
	}
	reg("strconv.ParseInt", parse(true, false))
	reg("strconv.ParseUint", parse(false, false))
	reg("strconv.Atoi", parse(true, true))
	dec := func(ex *Exec, fr *Frame, st *State, reach string, a []Val, sig *types.Signature, pos token.Pos) Val {
		ex.sc.fun("str_dec", []string{sInt}, sStr)
		r := ex.sc.define("dec", sStr, app("str_dec", a[0].term()))
		ex.sc.assert(mkAnd(mkCmp(">=", slen(r), "1"), mkCmp("<=", slen(r), "20")))
		ex.decFacts(r, a[0].term())
		return scalar(tString, r)
	}
	reg("strconv.Itoa", dec)
	reg("strconv.FormatUint", func(ex *Exec, fr *Frame, st *State, reach string, a []Val, sig *types.Signature, pos token.Pos) Val {
		if b, ok := isNumLit(a[1].term()); ok && b.Int64() == 10 {
			return dec(ex, fr, st, reach, a, sig, pos)
		}
		return scalar(tString, ex.freshStr("fmtuint"))
	})

	// ---- encoding/hex
	reg("encoding/hex.DecodedLen", func(ex *Exec, fr *Frame, st *State, reach string, a []Val, sig *types.Signature, pos token.Pos) Val {
		return scalar(tInt, mkDiv(a[0].term(), "2"))
	})
	reg("encoding/hex.DecodeString", func(ex *Exec, fr *Frame, st *State, reach string, a []Val, sig *types.Signature, pos token.Pos) Val {
		r := ex.freshSlice(st, sig.Results().At(0).Type(), "hexdec")
		err := ex.freshErr(st, "hexerr")
		ex.sc.assert(mkImp(mkEq(err.L[0], "0"), mkAnd(mkEq(r.L[2], mkDiv(slen(a[0].term()), "2")), mkEq(mkMod(slen(a[0].term()), "2"), "0"))))
		// success is a (deterministic) function of the text
		ex.sc.fun("hex_ok", []string{sStr}, sBool)
		ex.sc.assert(mkEq(mkEq(err.L[0], "0"), app("hex_ok", a[0].term())))
		return Val{T: sig.Results(), Tup: []Val{r, err}}
	})

	// ---- fmt / errors
	reg("fmt.Sprintf", func(ex *Exec, fr *Frame, st *State, reach string, a []Val, sig *types.Signature, pos token.Pos) Val {
		return scalar(tString, ex.freshStr("sprintf"))
	})
	reg("fmt.Errorf", func(ex *Exec, fr *Frame, st *State, reach string, a []Val, sig *types.Signature, pos token.Pos) Val {
		r := ex.nonNilErr(st, "errorf")
		if lit, ok := ex.litOf(a[0].term()); ok && strings.Contains(lit, "%w") {
			if n, ok := isNumLit(a[1].L[2]); ok && n.IsInt64() {
				it := a[1].T.Underlying().(*types.Slice).Elem()
				for j := int64(0); j < n.Int64(); j++ {
					tid := mkSelect(ex.elemArr(st, it, 0, a[1].L[0]), mkAdd(a[1].L[1], num(j)))
					pay := mkSelect(ex.elemArr(st, it, 1, a[1].L[0]), mkAdd(a[1].L[1], num(j)))
					e := Val{T: it, L: []string{ex.sc.define("wtid", sInt, tid), ex.sc.define("wpay", sInt, pay)}}
					ex.errIs(e, e)
					ex.sc.assert(fmt.Sprintf("(forall ((t Int) (p Int)) (! (=> (err_is %s %s t p) (err_is %s %s t p)) :pattern ((err_is %s %s t p))))",
						e.L[0], e.L[1], r.L[0], r.L[1], r.L[0], r.L[1]))
				}
			}
		}
		return r
	})
	reg("errors.New", func(ex *Exec, fr *Frame, st *State, reach string, a []Val, sig *types.Signature, pos token.Pos) Val {
		return ex.nonNilErr(st, "errnew")
	})
	reg("errors.Is", func(ex *Exec, fr *Frame, st *State, reach string, a []Val, sig *types.Signature, pos token.Pos) Val {
		return scalar(tBool, ex.sc.define("is", sBool, ex.errIs(a[0], a[1])))
	})
	reg("errors.Join", func(ex *Exec, fr *Frame, st *State, reach string, a []Val, sig *types.Signature, pos token.Pos) Val {
		r := ex.freshErr(st, "joined")
		n, ok := isNumLit(a[0].L[2])
		if !ok {
			return r
		}
		it := a[0].T.Underlying().(*types.Slice).Elem()
		var allNil []string
		for j := int64(0); j < n.Int64(); j++ {
			tid := ex.sc.define("jtid", sInt, mkSelect(ex.elemArr(st, it, 0, a[0].L[0]), mkAdd(a[0].L[1], num(j))))
			allNil = append(allNil, mkEq(tid, "0"))
		}
		ex.sc.assert(mkEq(mkEq(r.L[0], "0"), mkAnd(allNil...)))
		return r
	})

	// ---- time
	reg("time.Now", func(ex *Exec, fr *Frame, st *State, reach string, a []Val, sig *types.Signature, pos token.Pos) Val {
		ex.compSort["clock"] = sInt
		old, ok := st.heap["clock"]
		if !ok {
			old = ex.sc.global("H0_clock", sInt)
		}
		now := ex.freshInt("now")
		ex.sc.assert(mkCmp(">=", now, old))
		st.heap["clock"] = now
		ex.noteWrite("clock", "*")
		ex.clockReads = append(ex.clockReads, now)
		return Val{T: sig.Results().At(0).Type(), L: []string{now}}
	})
	reg("(time.Time).After", func(ex *Exec, fr *Frame, st *State, reach string, a []Val, sig *types.Signature, pos token.Pos) Val {
		return scalar(tBool, mkCmp(">", a[0].term(), a[1].term()))
	})
	reg("(time.Time).Before", func(ex *Exec, fr *Frame, st *State, reach string, a []Val, sig *types.Signature, pos token.Pos) Val {
		return scalar(tBool, mkCmp("<", a[0].term(), a[1].term()))
	})
	reg("(time.Time).Add", func(ex *Exec, fr *Frame, st *State, reach string, a []Val, sig *types.Signature, pos token.Pos) Val {
		return Val{T: a[0].T, L: []string{mkAdd(a[0].term(), a[1].term())}}
	})
	reg("(time.Time).UTC", func(ex *Exec, fr *Frame, st *State, reach string, a []Val, sig *types.Signature, pos token.Pos) Val {
		return a[0]
	})
	reg("(time.Time).String", func(ex *Exec, fr *Frame, st *State, reach string, a []Val, sig *types.Signature, pos token.Pos) Val {
		ex.sc.fun("time_string", []string{sInt}, sStr)
		return scalar(tString, app("time_string", a[0].term()))
	})
	reg("time.Unix", func(ex *Exec, fr *Frame, st *State, reach string, a []Val, sig *types.Signature, pos token.Pos) Val {
		ex.sc.fun("time_unix", []string{sInt, sInt}, sInt)
		return Val{T: sig.Results().At(0).Type(), L: []string{app("time_unix", a[0].term(), a[1].term())}}
	})
	reg("(time.Time).UnixNano", func(ex *Exec, fr *Frame, st *State, reach string, a []Val, sig *types.Signature, pos token.Pos) Val {
		// documented: undefined when the instant does not fit into an int64 count of nanoseconds
		v := ex.freshVal(st, sig.Results().At(0).Type(), "unixnano")
		t := a[0].term()
		ex.sc.assert(mkImp(mkAnd(mkCmp(">=", t, "(- 9223372036854775808)"), mkCmp("<=", t, "9223372036854775807")), mkEq(v.term(), t)))
		ex.assumedUsed["time.Time.UnixNano: the abstract instant itself when it fits into int64, any int64 otherwise (as documented)"] = true
		return v
	})
	reg("time.Sleep", func(ex *Exec, fr *Frame, st *State, reach string, a []Val, sig *types.Signature, pos token.Pos) Val {
		ex.lockFreeAtEnv(fr, st, reach, "time.Sleep", pos)
		return Val{T: sig.Results()}
	})

	// ---- sync, sync/atomic
	reg("(*sync.Mutex).Lock", func(ex *Exec, fr *Frame, st *State, reach string, a []Val, sig *types.Signature, pos token.Pos) Val {
		lv := ex.derefLV(fr, st, reach, a[0], pos)
		held := ex.load(st, lv).L[0]
		ex.noteLockComp(lv)
		if ex.lockChecks {
			ex.oblige(fr, "lock", ex.lockTags, pos, "Lock of a mutex not already held by this call (self-deadlock)", reach, mkNot(held))
		}
		ex.store(st, lv, Val{T: lv.T, L: []string{"true"}})
		return Val{T: sig.Results()}
	})
	reg("(*sync.Mutex).Unlock", func(ex *Exec, fr *Frame, st *State, reach string, a []Val, sig *types.Signature, pos token.Pos) Val {
		lv := ex.derefLV(fr, st, reach, a[0], pos)
		held := ex.load(st, lv).L[0]
		ex.noteLockComp(lv)
		if ex.lockChecks {
			ex.oblige(fr, "lock", ex.lockTags, pos, "Unlock of a mutex that is held", reach, held)
		}
		ex.store(st, lv, Val{T: lv.T, L: []string{"false"}})
		return Val{T: sig.Results()}
	})
	reg("(*sync.Once).Do", func(ex *Exec, fr *Frame, st *State, reach string, a []Val, sig *types.Signature, pos token.Pos) Val {
		lv := ex.derefLV(fr, st, reach, a[0], pos)
		done := ex.sc.define("done", sBool, ex.load(st, lv).L[0])
		if a[1].Fn == nil {
			panic(unsupported("sync.Once.Do with unknown function"))
		}
		s2 := st.clone()
		r2 := ex.sc.define("once_run", sBool, mkAnd(reach, mkNot(done)))
		ex.store(s2, lv, Val{T: lv.T, L: []string{"true"}})
		fsig := a[1].Fn.Fn.Signature
		ex.callFunction(fr, s2, r2, a[1].Fn.Fn, a[1].Fn.Bindings, nil, fsig, pos)
		_, merged := ex.mergeStates([]inEdge{{ex.sc.define("once_skip", sBool, mkAnd(reach, done)), st.clone()}, {r2, s2}}, "once")
		*st = *merged
		return Val{T: sig.Results()}
	})
	reg("sync/atomic.LoadInt32", func(ex *Exec, fr *Frame, st *State, reach string, a []Val, sig *types.Signature, pos token.Pos) Val {
		lv := ex.derefLV(fr, st, reach, a[0], pos)
		ex.inAtomic = true
		defer func() { ex.inAtomic = false }()
		ex.atomicAccess(lv)
		ex.interference(st, lv)
		return ex.load(st, lv)
	})
	reg("sync/atomic.CompareAndSwapInt32", func(ex *Exec, fr *Frame, st *State, reach string, a []Val, sig *types.Signature, pos token.Pos) Val {
		lv := ex.derefLV(fr, st, reach, a[0], pos)
		ex.inAtomic = true
		defer func() { ex.inAtomic = false }()
		ex.atomicAccess(lv)
		ex.interference(st, lv)
		v := ex.load(st, lv).term()
		ok := ex.sc.define("cas", sBool, mkEq(v, a[1].term()))
		ex.checkFrame(fr, st, reach, lv, pos)
		ex.store(st, lv, Val{T: lv.T, L: []string{mkIte(ok, a[2].term(), v)}})
		return scalar(tBool, ok)
	})
	reg("sync/atomic.AddUint32", func(ex *Exec, fr *Frame, st *State, reach string, a []Val, sig *types.Signature, pos token.Pos) Val {
		lv := ex.derefLV(fr, st, reach, a[0], pos)
		ex.inAtomic = true
		defer func() { ex.inAtomic = false }()
		ex.atomicAccess(lv)
		v := ex.load(st, lv).term()
		nv := ex.sc.define("atomicadd", sInt, mkMod(mkAdd(v, a[1].term()), "4294967296"))
		ex.checkFrame(fr, st, reach, lv, pos)
		ex.store(st, lv, Val{T: lv.T, L: []string{nv}})
		return scalar(sig.Results().At(0).Type(), nv)
	})

	// ---- os, filepath, user, net, unix, runtime
	reg("os.Getpid", func(ex *Exec, fr *Frame, st *State, reach string, a []Val, sig *types.Signature, pos token.Pos) Val {
		ex.sc.global("os_pid", sInt)
		ex.sc.axiom("(and (> os_pid 0) (< os_pid 2147483648))")
		return scalar(tInt, "os_pid")
	})
	reg("os.Getpagesize", func(ex *Exec, fr *Frame, st *State, reach string, a []Val, sig *types.Signature, pos token.Pos) Val {
		r := ex.freshInt("pagesize")
		ex.sc.assert(mkAnd(mkCmp(">", r, "0"), mkCmp("<=", r, "1048576")))
		return scalar(tInt, r)
	})
	havocAll := func(hint string) intrinsic {
		return func(ex *Exec, fr *Frame, st *State, reach string, a []Val, sig *types.Signature, pos token.Pos) Val {
			return packResults(sig, ex.freshResults(st, sig, hint))
		}
	}
	reg("os.Stat", func(ex *Exec, fr *Frame, st *State, reach string, a []Val, sig *types.Signature, pos token.Pos) Val {
		res := ex.freshResults(st, sig, "stat")
		ex.sc.assert(mkImp(mkEq(res[1].L[0], "0"), mkCmp(">", res[0].L[0], "0")))
		return packResults(sig, res)
	})
	reg("path/filepath.Clean", func(ex *Exec, fr *Frame, st *State, reach string, a []Val, sig *types.Signature, pos token.Pos) Val {
		ex.sc.fun("path_clean", []string{sStr}, sStr)
		r := ex.sc.define("clean", sStr, app("path_clean", a[0].term()))
		ex.sc.assert(mkCmp(">=", slen(r), "1"))
		return scalar(tString, r)
	})
	reg("path/filepath.IsAbs", func(ex *Exec, fr *Frame, st *State, reach string, a []Val, sig *types.Signature, pos token.Pos) Val {
		s := a[0].term()
		return scalar(tBool, ex.sc.define("isabs", sBool, mkAnd(mkCmp(">", slen(s), "0"), mkEq(app("sat", s, "0"), "47"))))
	})
	lookup := func(ex *Exec, fr *Frame, st *State, reach string, a []Val, sig *types.Signature, pos token.Pos) Val {
		res := ex.freshResults(st, sig, "lookup")
		// (u != nil) <=> (err == nil)
		ex.sc.assert(mkEq(mkNot(mkEq(res[0].L[0], "0")), mkEq(res[1].L[0], "0")))
		return packResults(sig, res)
	}
	reg("os/user.Lookup", lookup)
	reg("os/user.LookupId", lookup)
	reg("os/user.LookupGroup", lookup)
	reg("os/user.LookupGroupId", lookup)
	reg("(net.IP).String", havocAll("ipstr"))
	reg("golang.org/x/sys/unix.SignalName", havocAll("signame"))
	reg("(io/fs.FileMode).IsRegular", func(ex *Exec, fr *Frame, st *State, reach string, a []Val, sig *types.Signature, pos token.Pos) Val {
		// m & ModeType == 0 ; ModeType = bits 31,27,26,25,24,21,19
		m := a[0].term()
		var cs []string
		for _, b := range []uint{31, 27, 26, 25, 24, 21, 19} {
			cs = append(cs, mkEq(mkMod(mkDiv(m, numBig(pow2(b))), "2"), "0"))
		}
		return scalar(tBool, ex.sc.define("isregular", sBool, mkAnd(cs...)))
	})
	reg("(io/fs.FileMode).IsDir", func(ex *Exec, fr *Frame, st *State, reach string, a []Val, sig *types.Signature, pos token.Pos) Val {
		m := a[0].term()
		return scalar(tBool, ex.sc.define("isdir", sBool, mkEq(mkMod(mkDiv(m, numBig(pow2(31))), "2"), "1")))
	})
	reg("github.com/kballard/go-shellquote.Split", havocAll("shellsplit"))
	reg("(syscall.Errno).Error", havocAll("errnostr"))

	// ---- syscalls: environment calls
	for _, n := range []string{"syscall.Sendto", "syscall.Close", "syscall.Socket", "syscall.Bind", "syscall.Getsockname"} {
		n := n
		reg(n, func(ex *Exec, fr *Frame, st *State, reach string, a []Val, sig *types.Signature, pos token.Pos) Val {
			r := ex.envCall(fr, st, reach, n, sig, a, pos)
			if n == "syscall.Getsockname" {
				// (sa, err): err == nil => sa holds a non-nil pointer
				ex.sc.assert(mkImp(mkEq(r.Tup[1].L[0], "0"), mkAnd(mkCmp(">", r.Tup[0].L[0], "0"), mkCmp(">", r.Tup[0].L[1], "0"))))
			}
			return r
		})
	}
	reg("syscall.Recvfrom", func(ex *Exec, fr *Frame, st *State, reach string, a []Val, sig *types.Signature, pos token.Pos) Val {
		ex.lockFreeAtEnv(fr, st, reach, "syscall.Recvfrom", pos)
		entry := ex.logEnv(st, reach, "syscall.Recvfrom", a)
		res := ex.freshResults(st, sig, "recvfrom")
		ex.logEnvResults(st, entry, res)
		// err == nil => 0 <= n <= len(buf); the buffer contents are arbitrary afterwards
		ex.sc.assert(mkImp(mkEq(res[2].L[0], "0"), mkAnd(mkCmp(">=", res[0].term(), "0"), mkCmp("<=", res[0].term(), a[1].L[2]))))
		// a Sockaddr returned by the syscall package is nil or holds a non-nil pointer
		ex.sc.assert(mkImp(mkNot(mkEq(res[1].L[0], "0")), mkCmp(">", res[1].L[1], "0")))
		bt := types.Typ[types.Uint8]
		name := compE(bt, 0)
		srt := sArr(sInt, sArr(sInt, sInt))
		c := ex.comp(st, name, srt)
		nb := ex.sc.fresh("recvbuf", sArr(sInt, sInt))
		ex.sc.assert(fmt.Sprintf("(forall ((i Int)) (! (and (<= 0 (select %s i)) (< (select %s i) 256)) :pattern ((select %s i))))", nb, nb, nb))
		ex.setComp(st, name, srt, mkStore(c, a[1].L[0], nb))
		ex.noteWrite(name, a[1].L[0])
		return packResults(sig, res)
	})

	// ---- sort
	reg("sort.Sort", sortSortIntrinsic)

	// ---- regexp
	reg("(*regexp.Regexp).FindStringSubmatchIndex", func(ex *Exec, fr *Frame, st *State, reach string, a []Val, sig *types.Signature, pos token.Pos) Val {
		s := a[1].term()
		r := ex.freshSlice(st, sig.Results().At(0).Type(), "submatchidx")
		isNil := ex.sc.fresh("nomatch", sBool)
		re := ex.regexpOfCall()
		ex.sc.assert(mkImp(isNil, mkAnd(mkEq(r.L[2], "0"))))
		res := Val{T: r.T, L: []string{mkIte(isNil, "0", r.L[0]), "0", mkIte(isNil, "0", r.L[2]), mkIte(isNil, "0", r.L[3])}}
		if re == nil {
			ex.sc.assert(mkEq(mkMod(r.L[2], "2"), "0"))
			return res
		}
		n := re.MaxCap()
		ex.sc.assert(mkImp(mkNot(isNil), mkEq(r.L[2], num(int64(2*(n+1))))))
		arr := ex.sc.define("sm", sArr(sInt, sInt), ex.elemArr(st, tInt, 0, r.L[0]))
		at := func(k int) string { return mkSelect(arr, num(int64(k))) }
		must := mandatoryGroups(re)
		ex.sc.assert(mkImp(mkNot(isNil), mkAnd(mkCmp("<=", "0", at(0)), mkCmp("<=", at(0), at(1)), mkCmp("<=", at(1), slen(s)))))
		for g := 1; g <= n; g++ {
			in := mkAnd(mkCmp("<=", at(0), at(2*g)), mkCmp("<=", at(2*g), at(2*g+1)), mkCmp("<=", at(2*g+1), at(1)))
			if must[g] {
				ex.sc.assert(mkImp(mkNot(isNil), in))
			} else {
				ex.sc.assert(mkImp(mkNot(isNil), mkOr(in, mkAnd(mkEq(at(2*g), "(- 1)"), mkEq(at(2*g+1), "(- 1)")))))
			}
		}
		return res
	})
	reg("(*regexp.Regexp).FindStringSubmatch", func(ex *Exec, fr *Frame, st *State, reach string, a []Val, sig *types.Signature, pos token.Pos) Val {
		s := a[1].term()
		r := ex.freshStrSlice(st, sig.Results().At(0).Type(), "submatch")
		isNil := ex.sc.fresh("nomatch", sBool)
		res := Val{T: r.T, L: []string{mkIte(isNil, "0", r.L[0]), "0", mkIte(isNil, "0", r.L[2]), mkIte(isNil, "0", r.L[3])}}
		re := ex.regexpOfCall()
		if re != nil {
			n := re.MaxCap()
			ex.sc.assert(mkImp(mkNot(isNil), mkEq(r.L[2], num(int64(n+1)))))
			// index witnesses: group g is s[b_g:e_g] (or absent for optional groups)
			begin := make([]string, n+1)
			end := make([]string, n+1)
			must := mandatoryGroups(re)
			must[0] = true
			for g := 0; g <= n; g++ {
				begin[g] = ex.sc.fresh(fmt.Sprintf("g%d_b", g), sInt)
				end[g] = ex.sc.fresh(fmt.Sprintf("g%d_e", g), sInt)
				el := ex.strElem(st, r, num(int64(g)))
				in := mkAnd(mkCmp("<=", "0", begin[g]), mkCmp("<=", begin[g], end[g]), mkCmp("<=", end[g], slen(s)),
					mkEq(el, app("ssub", s, begin[g], end[g])), mkEq(slen(el), mkSub(end[g], begin[g])))
				if g > 0 {
					in = mkAnd(in, mkCmp("<=", begin[0], begin[g]), mkCmp("<=", end[g], end[0]))
				}
				if must[g] {
					if sub := captureByIndex(re, g); sub != nil {
						if mn := reMinLen(sub); mn > 0 {
							in = mkAnd(in, mkCmp(">=", mkSub(end[g], begin[g]), num(int64(mn))))
						}
					}
					ex.sc.assert(mkImp(mkNot(isNil), in))
				} else {
					ex.sc.assert(mkImp(mkNot(isNil), mkOr(in, mkEq(el, "STR_EMPTY"))))
				}
				ex.sc.assert(mkCmp("<=", slen(el), slen(s)))
			}
			ex.regexpLayout(re, s, isNil, begin, end)
		}
		return res
	})
	reg("(*regexp.Regexp).FindAllStringSubmatch", func(ex *Exec, fr *Frame, st *State, reach string, a []Val, sig *types.Signature, pos token.Pos) Val {
		s := a[1].term()
		r := ex.freshSlice(st, sig.Results().At(0).Type(), "allsubmatch")
		re := ex.regexpOfCall()
		ex.sc.assert(mkCmp("<=", r.L[2], mkAdd(slen(s), "1")))
		if re != nil {
			// every element is a slice of NumSubexp()+1 strings
			inner := r.T.Underlying().(*types.Slice).Elem()
			lens := ex.elemArr(st, inner, 2, r.L[0])
			refs := ex.elemArr(st, inner, 0, r.L[0])
			offs := ex.elemArr(st, inner, 1, r.L[0])
			caps := ex.elemArr(st, inner, 3, r.L[0])
			ex.sc.assert(fmt.Sprintf("(forall ((i Int)) (! (=> (and (<= 0 i) (< i %s)) (and (= (select %s i) %d) (> (select %s i) 0) (>= (select %s i) 0) (>= (select %s i) %d))) :pattern ((select %s i))))",
				r.L[2], lens, re.MaxCap()+1, refs, offs, caps, re.MaxCap()+1, lens))
			// every submatch is a substring of the subject; a top-level group is shorter
			// than the subject by at least the minimal length of the rest of the pattern
			strs := ex.comp(st, compE(tString, 0), sArr(sInt, sArr(sInt, sStr)))
			slack := groupSlack(re)
			for g := 0; g <= re.MaxCap(); g++ {
				ex.sc.assert(fmt.Sprintf("(forall ((i Int)) (! (=> (and (<= 0 i) (< i %s)) (<= (slen (select (select %s (select %s i)) (+ (select %s i) %d))) (- (slen %s) %d))) :pattern ((select %s i))))",
					r.L[2], strs, refs, offs, g, s, slack[g], refs))
			}
		}
		return r
	})
	reg("regexp.MustCompile", havocAll("regexp"))
}

func isASCII(s string) bool {
	for i := 0; i < len(s); i++ {
		if s[i] >= 128 {
			return false
		}
	}
	return true
}

type submatchRec struct {
	re      *syntax.Regexp
	subject string
	res     Val
	isNil   string
}

// regexpOfCall finds the pattern literal of the regexp a method is called on:
// the receiver must be a load of a package-level variable initialised with
// regexp.MustCompile(<literal>).
func (ex *Exec) regexpOfCall() *syntax.Regexp {
	call, ok := ex.curInstr.(ssa.CallInstruction)
	if !ok {
		return nil
	}
	args := call.Common().Args
	if len(args) == 0 {
		return nil
	}
	ld, ok := args[0].(*ssa.UnOp)
	if !ok {
		return nil
	}
	g, ok := ld.X.(*ssa.Global)
	if !ok {
		return nil
	}
	lit, ok := ex.eng.regexpLiteral(g)
	if !ok {
		return nil
	}
	re, err := syntax.Parse(lit, syntax.Perl)
	if err != nil {
		return nil
	}
	ex.assumedUsed["regexp pattern "+g.Name()+" = "+lit] = true
	return re
}

func (eng *Engine) regexpLiteral(g *ssa.Global) (string, bool) {
	init := g.Pkg.Func("init")
	if init == nil {
		return "", false
	}
	for _, b := range init.Blocks {
		for _, ins := range b.Instrs {
			st, ok := ins.(*ssa.Store)
			if !ok || st.Addr != g {
				continue
			}
			call, ok := st.Val.(*ssa.Call)
			if !ok {
				continue
			}
			if f := call.Call.StaticCallee(); f != nil && f.String() == "regexp.MustCompile" {
				if c, ok := call.Call.Args[0].(*ssa.Const); ok {
					return constString(c), true
				}
			}
		}
	}
	return "", false
}

// mandatoryGroups: capture groups that take part in every match.
func mandatoryGroups(re *syntax.Regexp) map[int]bool {
	out := map[int]bool{}
	var walk func(r *syntax.Regexp, must bool)
	walk = func(r *syntax.Regexp, must bool) {
		switch r.Op {
		case syntax.OpCapture:
			if must {
				out[r.Cap] = true
			}
			walk(r.Sub[0], must)
		case syntax.OpConcat:
			for _, s := range r.Sub {
				walk(s, must)
			}
		case syntax.OpPlus:
			walk(r.Sub[0], must)
		case syntax.OpRepeat:
			walk(r.Sub[0], must && r.Min > 0)
		case syntax.OpStar, syntax.OpQuest, syntax.OpAlternate:
			for _, s := range r.Sub {
				walk(s, false)
			}
		}
	}
	walk(re, true)
	return out
}

// sort.Sort on a slice of integers: the elements are permuted.
func sortSortIntrinsic(ex *Exec, fr *Frame, st *State, reach string, a []Val, sig *types.Signature, pos token.Pos) Val {
	v, ok := ex.boxed[a[0].L[1]]
	if !ok {
		panic(unsupported("sort.Sort on an unknown value"))
	}
	sl, ok := v.T.Underlying().(*types.Slice)
	if !ok || len(flatten(sl.Elem())) != 1 {
		panic(unsupported("sort.Sort on " + v.T.String()))
	}
	elem := sl.Elem()
	name := compE(elem, 0)
	srt := sArr(sInt, sArr(sInt, sInt))
	c := ex.comp(st, name, srt)
	old := ex.sc.define("presort", sArr(sInt, sInt), mkSelect(c, v.L[0]))
	nw := ex.sc.fresh("sorted", sArr(sInt, sInt))
	off, ln := v.L[1], v.L[2]
	// outside the slice nothing changes
	ex.sc.assert(fmt.Sprintf("(forall ((k Int)) (! (=> (or (< k %s) (>= k (+ %s %s))) (= (select %s k) (select %s k))) :pattern ((select %s k))))", off, off, ln, nw, old, nw))
	// permutation with explicit witness functions over absolute positions:
	// nw[j] = old[pi(j)], old[j] = nw[inv(j)], pi and inv mutually inverse on the range
	ex.envSeq++
	pi := fmt.Sprintf("sort_pi_%d", ex.envSeq)
	inv := fmt.Sprintf("sort_inv_%d", ex.envSeq)
	ex.sc.fun(pi, []string{sInt}, sInt)
	ex.sc.fun(inv, []string{sInt}, sInt)
	hi := ex.sc.define("sorthi", sInt, mkAdd(off, ln))
	ex.sc.assert(fmt.Sprintf("(forall ((j Int)) (! (=> (and (<= %s j) (< j %s)) (and (<= %s (%s j)) (< (%s j) %s) (= (%s (%s j)) j) (= (select %s j) (select %s (%s j))))) :pattern ((select %s j)) :pattern ((%s j))))",
		off, hi, off, pi, pi, hi, inv, pi, nw, old, pi, nw, pi))
	ex.sc.assert(fmt.Sprintf("(forall ((j Int)) (! (=> (and (<= %s j) (< j %s)) (and (<= %s (%s j)) (< (%s j) %s) (= (%s (%s j)) j) (= (select %s j) (select %s (%s j))))) :pattern ((select %s j)) :pattern ((%s j))))",
		off, hi, off, inv, inv, hi, pi, inv, old, nw, inv, old, inv))
	// element ranges are preserved
	l := flatten(elem)[0]
	ex.sc.assert(fmt.Sprintf("(forall ((k Int)) (! %s :pattern ((select %s k))))", scalarRange(l, mkSelect(nw, "k")), nw))
	ex.checkFrameRef(fr, st, reach, v.L[0], "sort", pos)
	ex.setComp(st, name, srt, mkStore(c, v.L[0], nw))
	ex.noteWrite(name, v.L[0])
	ex.sorts = append(ex.sorts, sortRec{old: old, nw: nw, off: off, ln: ln, elem: elem, pi: pi, inv: inv})
	// sortedness under a strict weak order is added by the contract layer (see lessSpec)
	ex.assumeSorted(st, reach, v, nw)
	return Val{T: sig.Results()}
}

type sortRec struct {
	old, nw, off, ln string
	elem             types.Type
	pi, inv          string
}

func init() {
	reg := func(name string, f intrinsic) { intrinsics[name] = f }
	nothing := func(ex *Exec, fr *Frame, st *State, reach string, a []Val, sig *types.Signature, pos token.Pos) Val {
		return packResults(sig, ex.freshResults(st, sig, "r"))
	}
	// ---- flag: the FlagSet calls back into the registered Values; modelled as
	// havoc of every registered location (each Set method is verified on its own
	// for arbitrary receiver states and arguments).
	reg("flag.NewFlagSet", func(ex *Exec, fr *Frame, st *State, reach string, a []Val, sig *types.Signature, pos token.Pos) Val {
		r := ex.newRef(st, "flagset")
		return Val{T: sig.Results().At(0).Type(), L: []string{r}}
	})
	reg("(*flag.FlagSet).SetOutput", nothing)
	regVar := func(ex *Exec, fr *Frame, st *State, reach string, a []Val, sig *types.Signature, pos token.Pos) Val {
		target := a[1]
		if target.LV == nil && len(target.L) == 2 {
			// flag.Value interface holding a pointer
			ptrT, ok := ex.eng.tidTypes[atoiSafe(target.L[0])]
			if !ok {
				panic(unsupported("flag.Var with unknown dynamic type"))
			}
			target = Val{T: ptrT, L: []string{target.L[1]}}
		}
		lv := ex.ptrLV(target)
		// one registry for all flag sets of the unit: the term naming the set differs
		// between loads, and havocking the locations of every set is the sound side
		ex.flagRegs["*"] = append(ex.flagRegs["*"], lv)
		name := ""
		if len(a) > 2 {
			if lit, ok := ex.litOf(a[2].term()); ok {
				name = lit
			}
		}
		ex.flagNames = append(ex.flagNames, name)
		return Val{T: sig.Results()}
	}
	reg("(*flag.FlagSet).Var", regVar)
	reg("(*flag.FlagSet).BoolVar", regVar)
	reg("(*flag.FlagSet).StringVar", regVar)
	reg("(*flag.FlagSet).Parse", func(ex *Exec, fr *Frame, st *State, reach string, a []Val, sig *types.Signature, pos token.Pos) Val {
		if len(ex.flagRegs["*"]) == 0 {
			panic(unsupported("flag.FlagSet.Parse on a set whose registrations are not visible"))
		}
		// each registered flag was given on the line or not (ghost "set"); the
		// location of a flag that was not given keeps its value, the location of one
		// that was given holds whatever its Set calls left there
		ex.flagSet = map[string]string{}
		for i, lv := range ex.flagRegs["*"] {
			name := ex.flagNames[i]
			set := ex.sc.fresh("flagset_"+sanitize(name), sBool)
			if name != "" {
				ex.flagSet[name] = set
			}
			old := ex.load(st, lv)
			nw := ex.freshVal(st, lv.T, "flagval")
			if len(old.L) == len(nw.L) {
				for j := range nw.L {
					nw.L[j] = mkIte(set, nw.L[j], old.L[j])
				}
			}
			ex.store(st, lv, nw)
		}
		ex.assumedUsed["flag.FlagSet.Parse: calls only the registered Values' Set methods, and only for flags given on the line (a flag that is not given leaves its location unchanged); Visit calls its function once for each flag that was given, in name order; NArg() is the number of arguments Parse did not consume"] = true
		left := ex.sc.fresh("flag_leftover", sInt)
		ex.sc.assert(mkCmp(">=", left, "0"))
		ex.compSort["flagleft"] = sInt
		st.heap["flagleft"] = left
		ex.noteWrite("flagleft", "*")
		return packResults(sig, ex.freshResults(st, sig, "flagparse"))
	})
	reg("(*flag.FlagSet).NArg", func(ex *Exec, fr *Frame, st *State, reach string, a []Val, sig *types.Signature, pos token.Pos) Val {
		return scalar(tInt, ex.flagLeft(st))
	})
	reg("(*flag.FlagSet).Args", nothing)
	reg("(*flag.FlagSet).Visit", func(ex *Exec, fr *Frame, st *State, reach string, a []Val, sig *types.Signature, pos token.Pos) Val {
		cl := a[1].Fn
		if cl == nil {
			panic(unsupported("FlagSet.Visit with unknown function"))
		}
		if len(ex.flagSet) > 0 && len(ex.flagSet) == len(ex.flagNames) {
			// the registrations and the Parse call are visible: Visit calls the function
			// once for each flag that was given, in lexical order of the names
			names := sortedKeysS(ex.flagSet)
			ft := cl.Fn.Signature.Params().At(0).Type().(*types.Pointer).Elem()
			for _, name := range names {
				r := ex.newRef(st, "flag")
				fv := ex.zeroVal(ft)
				fv.L[0] = ex.strConst(name) // Flag.Name is the first field
				ex.store(st, &LValue{Kind: lvHeap, Root: ft, Ref: r, T: ft}, fv)
				s2 := st.clone()
				r2 := ex.sc.define("visit_run", sBool, mkAnd(reach, ex.flagSet[name]))
				ex.callFunction(fr, s2, r2, cl.Fn, cl.Bindings, []Val{{T: types.NewPointer(ft), L: []string{r}}}, cl.Fn.Signature, pos)
				_, merged := ex.mergeStates([]inEdge{{ex.sc.define("visit_skip", sBool, mkAnd(reach, mkNot(ex.flagSet[name]))), st.clone()}, {r2, s2}}, "visit")
				*st = *merged
			}
			return Val{T: sig.Results()}
		}
		// discover what the callback writes, then havoc exactly that (the callback
		// runs zero or more times with arbitrary *flag.Flag arguments)
		d := ex.cloneForTrial()
		d.wlog = &writeLog{}
		ds := st.clone()
		arg := d.freshVal(ds, cl.Fn.Signature.Params().At(0).Type(), "flag")
		d.sc.assert(mkCmp(">", arg.term(), "0"))
		d.callFunction(fr.cloneRegs(), ds, reach, cl.Fn, cl.Bindings, []Val{arg}, cl.Fn.Signature, pos)
		// callback invariants of the enclosing function's contract: established
		// before the iteration, preserved by one run of the callback from any state
		// that satisfies them, and therefore true afterwards
		var cbInv []Clause
		if fr.ctr != nil {
			cbInv = fr.ctr.Callback
		}
		evalInv := func(s *State, cl Clause) string {
			env := ex.newSpecEnv(fr.fn, s, fr.entry)
			env.fr = fr
			ex.bindParams(env, fr.fn, fr.ctr, fr.params)
			return env.evalBool(cl.E, "callback invariant "+cl.Text)
		}
		for _, cl := range cbInv {
			ex.oblige(fr, "inv-init", cl.Tags, pos, "callback invariant holds before the iteration: "+cl.Text, reach, evalInv(st, cl))
		}
		seen := map[string]bool{}
		for _, w := range d.wlog.recs {
			if w.comp == compAlloc || seen[w.comp] {
				continue
			}
			seen[w.comp] = true
			srt := d.compSort[w.comp]
			ex.compSort[w.comp] = srt
			st.heap[w.comp] = ex.sc.fresh("visit_hv", srt)
			ex.noteWrite(w.comp, "*")
		}
		for _, cl := range cbInv {
			ex.sc.assert(evalInv(st, cl))
		}
		// the callback itself must be safe for every flag (and preserve the invariants)
		farg := ex.freshVal(st, cl.Fn.Signature.Params().At(0).Type(), "flag")
		ex.sc.assert(mkCmp(">", farg.term(), "0"))
		s2 := st.clone()
		ex.callFunction(fr, s2, reach, cl.Fn, cl.Bindings, []Val{farg}, cl.Fn.Signature, pos)
		for _, cl := range cbInv {
			ex.oblige(fr, "inv-step", cl.Tags, pos, "callback invariant preserved by the callback: "+cl.Text, reach, evalInv(s2, cl))
		}
		return Val{T: sig.Results()}
	})
	ifaceIntrinsics["error.Error"] = func(ex *Exec, fr *Frame, st *State, reach string, recv Val, args []Val, sig *types.Signature, pos token.Pos) Val {
		return scalar(tString, ex.freshStr("errstr"))
	}
	ifaceIntrinsics["fs.FileInfo.IsDir"] = func(ex *Exec, fr *Frame, st *State, reach string, recv Val, args []Val, sig *types.Signature, pos token.Pos) Val {
		return scalar(tBool, ex.sc.fresh("isdir", sBool))
	}
	ifaceIntrinsics["io.Writer.Write"] = func(ex *Exec, fr *Frame, st *State, reach string, recv Val, args []Val, sig *types.Signature, pos token.Pos) Val {
		return ex.envCall(fr, st, reach, "io.Writer.Write", sig, args, pos)
	}
	reg("unicode/utf8.RuneCountInString", func(ex *Exec, fr *Frame, st *State, reach string, a []Val, sig *types.Signature, pos token.Pos) Val {
		// between ceil(len/4) and len runes; exactly len for the empty string
		s := a[0].term()
		n := ex.sc.fresh("runes", sInt)
		ex.sc.assert(mkAnd(mkCmp("<=", "0", n), mkCmp("<=", n, slen(s)), mkCmp("<=", slen(s), mkMul("4", n))))
		return scalar(tInt, n)
	})
	reg("(*bytes.Buffer).WriteString", nothing)
	reg("(*bytes.Buffer).String", nothing)
}

// minLen: the minimal length of a string matched by re.
func minLen(re *syntax.Regexp) int {
	switch re.Op {
	case syntax.OpLiteral:
		return len(string(re.Rune))
	case syntax.OpCharClass, syntax.OpAnyChar, syntax.OpAnyCharNotNL:
		return 1
	case syntax.OpCapture, syntax.OpPlus:
		return minLen(re.Sub[0])
	case syntax.OpRepeat:
		return re.Min * minLen(re.Sub[0])
	case syntax.OpConcat:
		n := 0
		for _, s := range re.Sub {
			n += minLen(s)
		}
		return n
	case syntax.OpAlternate:
		m := -1
		for _, s := range re.Sub {
			if l := minLen(s); m < 0 || l < m {
				m = l
			}
		}
		if m < 0 {
			return 0
		}
		return m
	}
	return 0
}

// groupSlack[g]: how much shorter than the whole match group g must be (only
// for groups that are top-level concatenands; 0 otherwise).
func groupSlack(re *syntax.Regexp) map[int]int {
	out := map[int]int{}
	if re.Op != syntax.OpConcat {
		return out
	}
	total := minLen(re)
	for _, s := range re.Sub {
		if s.Op == syntax.OpCapture {
			out[s.Cap] = total - minLen(s)
		}
	}
	return out
}

// decFacts: the canonical decimal text of n parses back to n (strconv round trip).
func (ex *Exec) decFacts(r, n string) {
	ex.sc.fun("str_uval", []string{sStr, sInt}, sInt)
	ex.sc.fun("str_ival", []string{sStr, sInt}, sInt)
	ex.sc.fun("str_isnum", []string{sStr, sInt, sBool}, sBool)
	ex.sc.assert(mkAnd(mkEq(app("str_ival", r, "10"), n), app("str_isnum", r, "10", "true")))
	// the decimal text of a non-negative number consists of digits
	ex.sc.assert(mkImp(mkCmp(">=", n, "0"), fmt.Sprintf("(forall ((i Int)) (! (=> (and (<= 0 i) (< i (slen %s))) (and (<= 48 (sat %s i)) (<= (sat %s i) 57))) :pattern ((sat %s i))))", r, r, r, r)))
	ex.sc.assert(mkImp(mkCmp(">=", n, "0"), mkAnd(mkEq(app("str_uval", r, "10"), n), app("str_isnum", r, "10", "false"))))
}

// regexpLayout derives, from the top-level concatenation of the pattern, how
// the match and its (top-level, mandatory) groups tile the subject: anchors,
// adjacency of consecutive elements, and the character class of star/plus
// elements that lie between two groups.
func (ex *Exec) regexpLayout(re *syntax.Regexp, s, isNil string, begin, end []string) {
	if re.Op != syntax.OpConcat {
		return
	}
	cur := begin[0] // position reached so far (exact)
	exact := true
	for _, sub := range re.Sub {
		switch sub.Op {
		case syntax.OpBeginText:
			ex.sc.assert(mkImp(mkNot(isNil), mkEq(begin[0], "0")))
		case syntax.OpEndText:
			ex.sc.assert(mkImp(mkNot(isNil), mkEq(end[0], slen(s))))
		case syntax.OpCapture:
			g := sub.Cap
			if exact {
				ex.sc.assert(mkImp(mkNot(isNil), mkEq(begin[g], cur)))
			}
			cur, exact = end[g], true
		case syntax.OpStar, syntax.OpPlus:
			// a run of one character class: introduce its end position
			e := ex.sc.fresh("run_e", sInt)
			if exact {
				cls := classPred(sub.Sub[0], app("sat", s, "j"))
				min := "0"
				if sub.Op == syntax.OpPlus {
					min = "1"
				}
				ex.sc.assert(mkImp(mkNot(isNil), mkAnd(mkCmp("<=", mkAdd(cur, min), e), mkCmp("<=", e, end[0]))))
				if cls != "" {
					ex.sc.assert(mkImp(mkNot(isNil), fmt.Sprintf("(forall ((j Int)) (! (=> (and (<= %s j) (< j %s)) %s) :pattern ((sat %s j))))", cur, e, cls, s)))
				}
			}
			cur = e
		case syntax.OpLiteral:
			if exact {
				lit := string(sub.Rune)
				for k := 0; k < len(lit); k++ {
					ex.sc.assert(mkImp(mkNot(isNil), mkEq(app("sat", s, mkAdd(cur, num(int64(k)))), num(int64(lit[k])))))
				}
				cur = ex.sc.define("litend", sInt, mkAdd(cur, num(int64(len(lit)))))
			}
		default:
			exact = false
		}
	}
	if exact {
		ex.sc.assert(mkImp(mkNot(isNil), mkEq(end[0], cur)))
	}
	ex.regexpPreference(re, s, isNil, begin, end)
}

// regexpPreference: leftmost-first choice for the shape  ... (G) (C+) $  where G
// has a small finite language. The match found has the first alternative of G
// (in preference order) for which the rest of the pattern matches; so for the
// chosen alternative a_k and every earlier a_j: a_j is not at that position, or
// the rest after a_j is empty (C+ cannot match). When a_j is shorter than a_k
// this needs the extra characters of a_k to be in C, which is checked on the
// literals.
func (ex *Exec) regexpPreference(re *syntax.Regexp, s, isNil string, begin, end []string) {
	n := len(re.Sub)
	if n < 3 || re.Sub[n-1].Op != syntax.OpEndText || re.Sub[n-2].Op != syntax.OpCapture || re.Sub[n-3].Op != syntax.OpCapture {
		return
	}
	rest := re.Sub[n-2].Sub[0]
	if (rest.Op != syntax.OpPlus && rest.Op != syntax.OpStar) || rest.Sub[0].Op != syntax.OpCharClass {
		return
	}
	minRest := 1
	if rest.Op == syntax.OpStar {
		minRest = 0
	}
	cls := rest.Sub[0]
	inClass := func(b byte) bool {
		for i := 0; i+1 < len(cls.Rune); i += 2 {
			if rune(b) >= cls.Rune[i] && rune(b) <= cls.Rune[i+1] {
				return true
			}
		}
		return false
	}
	g := re.Sub[n-3].Cap
	alts, ok := enumPref(re.Sub[n-3].Sub[0])
	if !ok || len(alts) < 2 || len(alts) > 32 {
		return
	}
	el := app("ssub", s, begin[g], end[g])
	prefixAt := func(lit string) string {
		cs := []string{mkCmp("<=", mkAdd(begin[g], num(int64(len(lit)))), slen(s))}
		for i := 0; i < len(lit); i++ {
			cs = append(cs, mkEq(app("sat", s, mkAdd(begin[g], num(int64(i)))), num(int64(lit[i]))))
		}
		return mkAnd(cs...)
	}
	var anyAlt []string
	for _, ak := range alts {
		anyAlt = append(anyAlt, mkAnd(mkEq(mkSub(end[g], begin[g]), num(int64(len(ak)))), prefixAt(ak)))
	}
	ex.sc.assert(mkImp(mkNot(isNil), mkOr(anyAlt...)))
	for k, ak := range alts {
		chosen := mkAnd(mkEq(mkSub(end[g], begin[g]), num(int64(len(ak)))), prefixAt(ak))
		_ = el
		for j := 0; j < k; j++ {
			aj := alts[j]
			if aj == ak {
				continue
			}
			if len(aj) < len(ak) {
				all := true
				for i := len(aj); i < len(ak); i++ {
					if !inClass(ak[i]) {
						all = false
					}
				}
				if !all {
					continue // the rest after a_j may fail for another reason: no fact
				}
				ex.sc.assert(mkImp(mkAnd(mkNot(isNil), chosen), mkNot(prefixAt(aj))))
				continue
			}
			ex.sc.assert(mkImp(mkAnd(mkNot(isNil), chosen), mkOr(mkNot(prefixAt(aj)),
				mkCmp(">", mkAdd(begin[g], num(int64(len(aj)+minRest))), slen(s)))))
		}
	}
}

// enumPref lists the (small, finite) language of re in preference order.
func enumPref(re *syntax.Regexp) ([]string, bool) {
	switch re.Op {
	case syntax.OpLiteral:
		return []string{string(re.Rune)}, true
	case syntax.OpEmptyMatch:
		return []string{""}, true
	case syntax.OpCharClass:
		var out []string
		for i := 0; i+1 < len(re.Rune); i += 2 {
			if re.Rune[i+1]-re.Rune[i] > 8 || re.Rune[i+1] > 127 {
				return nil, false
			}
			for r := re.Rune[i]; r <= re.Rune[i+1]; r++ {
				out = append(out, string(r))
			}
		}
		return out, len(out) <= 16
	case syntax.OpCapture:
		return enumPref(re.Sub[0])
	case syntax.OpAlternate:
		var out []string
		for _, sub := range re.Sub {
			l, ok := enumPref(sub)
			if !ok {
				return nil, false
			}
			out = append(out, l...)
		}
		return out, len(out) <= 64
	case syntax.OpQuest:
		l, ok := enumPref(re.Sub[0])
		if !ok {
			return nil, false
		}
		if re.Flags&syntax.NonGreedy != 0 {
			return append([]string{""}, l...), true
		}
		return append(l, ""), true
	case syntax.OpConcat:
		out := []string{""}
		for _, sub := range re.Sub {
			l, ok := enumPref(sub)
			if !ok {
				return nil, false
			}
			var nw []string
			for _, a := range out {
				for _, b := range l {
					nw = append(nw, a+b)
				}
			}
			out = nw
			if len(out) > 64 {
				return nil, false
			}
		}
		return out, true
	}
	return nil, false
}

// classPred: membership of byte term b in a character class (ASCII classes only).
func classPred(re *syntax.Regexp, b string) string {
	if re.Op != syntax.OpCharClass {
		return ""
	}
	var cs []string
	for i := 0; i+1 < len(re.Rune); i += 2 {
		lo, hi := re.Rune[i], re.Rune[i+1]
		if lo > 127 {
			continue
		}
		if hi > 127 {
			hi = 127
		}
		cs = append(cs, mkAnd(mkCmp("<=", num(int64(lo)), b), mkCmp("<=", b, num(int64(hi)))))
	}
	return mkOr(cs...)
}

func (ex *Exec) flagLeft(st *State) string {
	if t, ok := st.heap["flagleft"]; ok {
		return t
	}
	ex.compSort["flagleft"] = sInt
	t := ex.sc.global("H0_flagleft", sInt)
	return t
}

func (ex *Exec) splitFuns() {
	ex.sc.fun("split_n", []string{sStr, sStr}, sInt)
	ex.sc.fun("split_b", []string{sStr, sStr, sInt}, sInt)
	ex.sc.fun("split_e", []string{sStr, sStr, sInt}, sInt)
}

func captureByIndex(re *syntax.Regexp, g int) *syntax.Regexp {
	if g == 0 {
		return re
	}
	if re.Op == syntax.OpCapture && re.Cap == g {
		return re.Sub[0]
	}
	for _, s := range re.Sub {
		if r := captureByIndex(s, g); r != nil {
			return r
		}
	}
	return nil
}

// reMinLen: a lower bound on the number of bytes any match of re has.
func reMinLen(re *syntax.Regexp) int {
	switch re.Op {
	case syntax.OpLiteral:
		return len(string(re.Rune))
	case syntax.OpCharClass, syntax.OpAnyChar, syntax.OpAnyCharNotNL:
		return 1
	case syntax.OpCapture, syntax.OpPlus:
		return reMinLen(re.Sub[0])
	case syntax.OpRepeat:
		return re.Min * reMinLen(re.Sub[0])
	case syntax.OpConcat:
		n := 0
		for _, s := range re.Sub {
			n += reMinLen(s)
		}
		return n
	case syntax.OpAlternate:
		m := -1
		for _, s := range re.Sub {
			if k := reMinLen(s); m < 0 || k < m {
				m = k
			}
		}
		if m < 0 {
			m = 0
		}
		return m
	}
	return 0
}

// interference: in a unit run with "interfere", a location declared atomic_only
// may have been changed by another goroutine since this one last looked: before
// every atomic access its value is replaced by an arbitrary one.
func (ex *Exec) interference(st *State, lv *LValue) {
	if !ex.interfere || lv.Kind != lvHeap {
		return
	}
	nav := navigate(lv.Root, lv.Path)
	if _, ok := ex.atomicOnly[compH(lv.Root, nav.lo)]; !ok {
		return
	}
	ex.store(st, lv, ex.freshVal(st, lv.T, "interf"))
}

func sortedKeysS(m map[string]string) []string {
	out := make([]string, 0, len(m))
	for k := range m {
		out = append(out, k)
	}
	sort.Strings(out)
	return out
}
