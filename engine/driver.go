package main

// Verification units, discharge of obligations, results.

import (
	"fmt"
	"go/types"
	"runtime/debug"
	"sort"
	"strings"
	"sync"
	"time"

	"golang.org/x/tools/go/ssa"
)

type UnitSpec struct {
	Fn          string   `json:"fn"`
	Mode        string   `json:"mode"`                   // contract | sweep
	Interfere   bool     `json:"interfere,omitempty"`    // model interference on atomic_only locations
	Tags        []string `json:"tags,omitempty"`         // keep only obligations carrying one of these tags (contract mode)
	Kinds       []string `json:"kinds,omitempty"`        // keep only these kinds
	AllUntagged bool     `json:"all_untagged,omitempty"` // also keep untagged obligations
	AllInvariants bool   `json:"all_invariants,omitempty"` // also prove the loop invariants tagged for other properties (this unit assumes them at the loop heads)
	Locks       bool     `json:"locks,omitempty"`
	NonNil      []string `json:"nonnil,omitempty"` // parameters assumed non-nil (sweep mode)
	AllocBound  string   `json:"alloc_bound,omitempty"`
	Inline      []string `json:"inline,omitempty"` // callees to inline although they have contracts
}

type UnitResult struct {
	Spec        UnitSpec
	Obls        []*Obligation
	Notes       []string
	Unsupported string
	Assumed     []string
	Inlined     []string
	Modular     []string
	GenTime     float64
	ScriptLines int
	Loops       []string
}

func (eng *Engine) runUnit(us UnitSpec) (res *UnitResult) {
	t0 := time.Now()
	res = &UnitResult{Spec: us}
	fn := eng.fnByKey[us.Fn]
	if fn == nil {
		res.Unsupported = "function not found: " + us.Fn
		return res
	}
	ex := newExec(eng, us.Fn)
	ex.sweep = us.Mode == "sweep"
	ex.interfere = us.Interfere
	ex.unitTags = us.Tags
	ex.hintPrefix = us.Mode + "|"
	if us.Interfere {
		ex.hintPrefix += "interfere|"
	}
	if us.Locks {
		ex.hintPrefix += "locks|"
	}
	// previously confirmed candidate sets (accelerator only: every set is
	// confirmed again by proof, and a set that is not confirmed as a whole is
	// discarded in favour of the full candidate search)
	for k, ids := range eng.hints {
		if strings.HasPrefix(k, ex.hintPrefix+us.Fn+"/") {
			set := map[string]bool{}
			for _, id := range ids {
				set[id] = true
			}
			ex.houdiniCache[k] = set
			ex.hinted[k] = len(ids)
		}
	}
	ex.lockChecks = us.Locks
	if us.Locks {
		ex.lockTags = us.Tags
	}
	eng.allocBound = us.AllocBound
	for k := range eng.inlineOverride {
		delete(eng.inlineOverride, k)
	}
	for _, k := range us.Inline {
		eng.inlineOverride[k] = true
	}
	defer func() {
		if us.Interfere {
			for _, o := range ex.obls {
				o.Name += "@interfere"
			}
		}
		if len(us.Inline) > 0 {
			for _, o := range ex.obls {
				o.Name += "@inline"
			}
		}
		res.Obls = ex.obls
		res.Notes = append(res.Notes, ex.notes...)
		res.Assumed = sortedKeysB(ex.assumedUsed)
		res.Inlined = sortedKeysB(ex.inlinedFns)
		res.Modular = sortedKeysB(ex.modularFns)
		res.Loops = ex.loopKinds
		eng.hintsMu.Lock()
		for k, set := range ex.houdiniCache {
			eng.newHints[k] = sortedKeysB(set)
		}
		eng.hintsMu.Unlock()
		res.GenTime = time.Since(t0).Seconds()
		res.ScriptLines = len(ex.sc.lines)
		if r := recover(); r != nil {
			switch e := r.(type) {
			case unsupportedErr:
				res.Unsupported = e.msg
			case specErr:
				res.Unsupported = "contract error: " + e.msg
			default:
				res.Unsupported = fmt.Sprintf("engine panic: %v\n%s", r, trunc(string(debug.Stack()), 6000))
			}
		}
	}()
	ex.sc.emit("(declare-fun STR_EMPTY () Str)")
	ex.sc.axiom("(= (slen STR_EMPTY) 0)")
	// all-empty string array (cvc5 rejects 'as const' with a non-value, z3 gives up on it)
	ex.sc.emit("(declare-fun STR_EMPTY_ARR () (Array Int Str))")
	ex.sc.axiom("(forall ((i Int)) (! (= (select STR_EMPTY_ARR i) STR_EMPTY) :pattern ((select STR_EMPTY_ARR i))))")
	ex.sc.decls["STR_EMPTY"] = sStr
	if us.Locks || us.Interfere {
		ex.guards = eng.buildGuards(ex)
	}
	st := newState()
	fr := ex.newFrame(fn, nil)
	fr.top = true
	ex.topFrame = fr
	ctr := eng.specs.contractFor(us.Fn)
	fr.ctr = ctr
	// parameters
	for _, p := range fn.Params {
		v := ex.freshVal(st, p.Type(), "p_"+p.Name())
		fr.params = append(fr.params, v)
		ex.inputs = append(ex.inputs, cexInput{p.Name(), v})
	}
	for _, fv := range fn.FreeVars {
		fr.bind = append(fr.bind, ex.freshVal(st, fv.Type(), "fv_"+fv.Name()))
	}
	// method receivers are non-nil (calling a method through a nil pointer is the caller's fault)
	if fn.Signature.Recv() != nil && len(fr.params) > 0 {
		if _, isPtr := fr.params[0].T.Underlying().(*types.Pointer); isPtr {
			ex.sc.assert(mkCmp(">", fr.params[0].term(), "0"))
		}
	}
	for _, nn := range us.NonNil {
		for i, p := range fn.Params {
			if p.Name() == nn {
				ex.sc.assert(mkNot(mkEq(fr.params[i].L[0], "0")))
			}
		}
	}
	fr.entryAlloc = ex.comp(st, compAlloc, sArr(sInt, sBool))
	fr.entry = st.clone()
	ex.assumeRequires(fr, st)
	fr.entry = st.clone()
	if us.Locks && ctr != nil && len(ctr.LockFree) > 0 {
		// object that holds the unit's mutex: "x.Mutex" -> x
		n := ctr.LockFree[0]
		if n.Kind == "field" {
			env := ex.newSpecEnv(fn, st, nil)
			ex.bindParams(env, fn, ctr, fr.params)
			func() {
				defer func() { recover() }()
				ex.sc.pure++
				v := env.eval(n.Args[0])
				ex.sc.pure--
				if len(v.L) == 1 {
					ex.unitLockRef = v.L[0]
				}
			}()
		}
	}
	ex.execFunc(fr, st, "true")
	return res
}

func sortedKeysB(m map[string]bool) []string {
	var out []string
	for k := range m {
		out = append(out, k)
	}
	sort.Strings(out)
	return out
}

func (o *Obligation) query() []string {
	if o.Raw != nil {
		return o.Raw
	}
	lines := append([]string{}, prelude("ALL")...)
	lines = append(lines, o.sc.lines[:o.Prefix]...)
	if o.IsSat {
		lines = append(lines, "(assert "+o.Goal+")")
	} else {
		lines = append(lines, "(assert (not "+o.Goal+"))")
	}
	lines = append(lines, "(check-sat)")
	return lines
}

// discharge runs all obligations through the solver portfolio.
func discharge(obls []*Obligation, timeoutS int, cross bool, workers int) {
	var wg sync.WaitGroup
	ch := make(chan *Obligation)
	for w := 0; w < workers; w++ {
		wg.Add(1)
		go func() {
			defer wg.Done()
			for o := range ch {
				if o.IsSat {
					// vacuity guard: a quick attempt only; "unsat" is the failure
					file := writeQuery(o.Name, o.query())
					st, out, dt := runSolver(solvers[0], file, 2)
					if !keepScratch {
						removeFile(file)
					}
					o.Res = SolveResult{Status: st, Solver: solvers[0].name, Time: dt, Output: out}
					continue
				}
				o.Res = solve(o.Name, o.query(), timeoutS, cross)
			}
		}()
	}
	for _, o := range obls {
		ch <- o
	}
	close(ch)
	wg.Wait()
}

func (o *Obligation) ok() bool {
	if o.Info {
		return true
	}
	if o.IsSat {
		return o.Res.Status != "unsat"
	}
	return o.Res.Status == "unsat"
}

func (o *Obligation) hasTag(tags []string) bool {
	for _, t := range o.Tags {
		for _, u := range tags {
			if t == u {
				return true
			}
		}
	}
	return false
}

func filterObls(us UnitSpec, obls []*Obligation) []*Obligation {
	var out []*Obligation
	for _, o := range obls {
		if len(us.Kinds) > 0 {
			found := false
			for _, k := range us.Kinds {
				if o.Kind == k {
					found = true
				}
			}
			if !found {
				continue
			}
		}
		if len(us.Tags) > 0 {
			if len(o.Tags) == 0 {
				if !us.AllUntagged {
					continue
				}
			} else if !o.hasTag(us.Tags) && !(us.AllInvariants && (o.Kind == "inv-init" || o.Kind == "inv-step")) {
				continue
			}
		}
		out = append(out, o)
	}
	return out
}

func describeFn(f *ssa.Function) string { return shortFn(f) }

func summarize(res []*UnitResult) string {
	var b strings.Builder
	for _, r := range res {
		okc, bad := 0, 0
		for _, o := range r.Obls {
			if o.ok() {
				okc++
			} else {
				bad++
			}
		}
		fmt.Fprintf(&b, "%-60s obligations=%d ok=%d failed=%d gen=%.2fs", r.Spec.Fn, len(r.Obls), okc, bad, r.GenTime)
		if r.Unsupported != "" {
			fmt.Fprintf(&b, " OUTSIDE-SUBSET: %s", trunc(r.Unsupported, 6000))
		}
		b.WriteString("\n")
	}
	return b.String()
}
