package main

// Translation of contract expressions into SMT terms over a symbolic state,
// and the use of contracts: entry assumptions, return obligations, modular
// calls, environment calls.

import (
	"regexp"
	"fmt"
	"go/constant"
	"go/token"
	"go/types"
	"math/big"
	"strconv"
	"strings"

	"golang.org/x/tools/go/ssa"
)

type SpecEnv struct {
	ex         *Exec
	cur        *State
	old        *State
	vars       map[string]Val
	pkg        *types.Package
	fr         *Frame // for locals (loop clauses)
	atLoop     bool
	qn         *int
	depth      int
	noUnfold   bool
	exportRec  bool // lemma export: emit the global defining equation even for "rec unfold"
	rangeAlloc *ssa.Alloc // the current loop's hidden range index (loop clauses)
	lp         *loopRec   // the loop a clause belongs to: a name declared several times means the variable this loop assigns
	entryAlloc string
}

type specErr struct{ msg string }

func (e specErr) Error() string { return e.msg }

func sfail(format string, a ...interface{}) { panic(specErr{fmt.Sprintf(format, a...)}) }

func mathInt(t string) Val  { return Val{GS: sInt, L: []string{t}} }
func mathBool(t string) Val { return Val{GS: sBool, L: []string{t}} }

func (v Val) isBool() bool {
	if v.T == nil {
		return v.GS == sBool
	}
	b, ok := v.T.Underlying().(*types.Basic)
	return ok && b.Info()&types.IsBoolean != 0
}

func (v Val) isInt() bool {
	if v.T == nil {
		return v.GS == sInt
	}
	_, _, ok := intInfo(v.T)
	return ok
}

func (env *SpecEnv) child() *SpecEnv {
	n := *env
	n.vars = make(map[string]Val, len(env.vars)+2)
	for k, v := range env.vars {
		n.vars[k] = v
	}
	return &n
}

// evalBool evaluates a clause to a Bool term; errors become "false" with a note
// (a clause that cannot be resolved is a failed obligation, never skipped).
func (env *SpecEnv) evalBool(n *Node, what string) (term string) {
	ex := env.ex
	ex.sc.pure++
	defer func() {
		ex.sc.pure--
		if r := recover(); r != nil {
			switch e := r.(type) {
			case specErr:
				ex.notes = append(ex.notes, "contract error ("+what+"): "+e.msg)
				term = "false"
			case unsupportedErr:
				ex.notes = append(ex.notes, "contract error ("+what+"): "+e.msg)
				term = "false"
			default:
				panic(r)
			}
		}
	}()
	v := env.eval(n)
	if !v.isBool() {
		sfail("clause is not boolean")
	}
	return v.L[0]
}

func (env *SpecEnv) evalInt(n *Node, what string) string {
	ex := env.ex
	ex.sc.pure++
	defer func() { ex.sc.pure-- }()
	v := env.eval(n)
	if !v.isInt() {
		sfail("%s: expression is not an integer", what)
	}
	return v.L[0]
}

func (env *SpecEnv) resolveType(name string) types.Type {
	name = strings.TrimSpace(name)
	switch name {
	case "Int":
		return nil
	}
	if strings.HasPrefix(name, "*") {
		t := env.resolveType(name[1:])
		return types.NewPointer(t)
	}
	if strings.HasPrefix(name, "[]") {
		t := env.resolveType(name[2:])
		return types.NewSlice(t)
	}
	if o := types.Universe.Lookup(name); o != nil {
		if tn, ok := o.(*types.TypeName); ok {
			return tn.Type()
		}
	}
	if i := strings.Index(name, "."); i > 0 {
		pk := env.findImport(name[:i])
		if pk == nil {
			sfail("unknown package %q", name[:i])
		}
		if o := pk.Scope().Lookup(name[i+1:]); o != nil {
			if tn, ok := o.(*types.TypeName); ok {
				return tn.Type()
			}
		}
		sfail("unknown type %q", name)
	}
	if env.pkg != nil {
		if o := env.pkg.Scope().Lookup(name); o != nil {
			if tn, ok := o.(*types.TypeName); ok {
				return tn.Type()
			}
		}
	}
	sfail("unknown type %q", name)
	return nil
}

func (env *SpecEnv) findImport(name string) *types.Package {
	if env.pkg == nil {
		return nil
	}
	if env.pkg.Name() == name {
		return env.pkg
	}
	for _, p := range env.pkg.Imports() {
		if p.Name() == name {
			return p
		}
	}
	// any package of the program
	for _, p := range env.ex.eng.prog.AllPackages() {
		if p.Pkg.Name() == name {
			return p.Pkg
		}
	}
	return nil
}

func constToVal(ex *Exec, c *types.Const) Val {
	t := c.Type()
	v := c.Val()
	switch v.Kind() {
	case constant.Bool:
		return Val{T: t, L: []string{strconv.FormatBool(constant.BoolVal(v))}}
	case constant.String:
		return Val{T: t, L: []string{ex.strConst(constant.StringVal(v))}}
	case constant.Int:
		b, _ := new(big.Int).SetString(v.ExactString(), 10)
		return Val{T: t, L: []string{numBig(b)}}
	}
	sfail("unsupported constant %s", c.Name())
	return Val{}
}

func (env *SpecEnv) lookupIdent(name string) (Val, bool) {
	if v, ok := env.vars[name]; ok {
		return v, true
	}
	// locals of the frame (loop clauses)
	if env.fr != nil {
		if v, ok := env.localByName(name); ok {
			return v, true
		}
		if name == "rangeslice" {
			// the (unnamed) slice a range loop iterates over: operand of the
			// element access indexed by the hidden range index
			for _, b := range env.fr.fn.Blocks {
				for _, ins := range b.Instrs {
					var x, idx ssa.Value
					switch i := ins.(type) {
					case *ssa.IndexAddr:
						x, idx = i.X, i.Index
					case *ssa.Index:
						x, idx = i.X, i.Index
					default:
						continue
					}
					if ld, ok := idx.(*ssa.UnOp); ok {
						if a, ok := ld.X.(*ssa.Alloc); ok && a.Comment == "rangeindex" && (env.rangeAlloc == nil || a == env.rangeAlloc) {
							if v, ok := env.fr.regs[x]; ok {
								return v, true
							}
						}
					}
				}
			}
		}
	}
	if env.pkg != nil {
		if o := env.pkg.Scope().Lookup(name); o != nil {
			switch x := o.(type) {
			case *types.Const:
				return constToVal(env.ex, x), true
			case *types.Var:
				if sp := env.ex.eng.prog.Package(env.pkg); sp != nil {
					if g, ok := sp.Members[name].(*ssa.Global); ok {
						ptr := env.ex.globalPtr(g)
						return env.ex.load(env.cur, env.ex.ptrLV(ptr)), true
					}
				}
			}
		}
	}
	return Val{}, false
}

func (env *SpecEnv) localByName(name string) (Val, bool) {
	fr := env.fr
	if name == "rangeindex" && env.rangeAlloc != nil {
		v, ok := env.cur.cells[cellKey{fr.id, env.rangeAlloc}]
		return v, ok
	}
	if name == "rangepos" && env.lp != nil {
		// the byte position a range-over-string loop has reached (ghost cell of its iterator)
		for _, ins := range env.lp.header.Instrs {
			if nx, ok := ins.(*ssa.Next); ok && nx.IsString {
				if r, ok := nx.Iter.(*ssa.Range); ok {
					v, ok := env.cur.cells[cellKey{fr.id, env.ex.eng.hiddenAlloc(r)}]
					return v, ok
				}
			}
		}
	}
	var best, dead *ssa.Alloc
	for _, b := range fr.fn.Blocks {
		for _, ins := range b.Instrs {
			if a, ok := ins.(*ssa.Alloc); ok && a.Comment == name {
				ck := cellKey{fr.id, a}
				if _, live := env.cur.cells[ck]; live || !env.ex.isSimpleCell(a) {
					if best == nil || (env.lp != nil && !storedInLoop(env.lp, best) && storedInLoop(env.lp, a)) {
						best = a
					}
				} else if dead == nil {
					dead = a
				}
			}
		}
	}
	if best == nil && dead != nil {
		// the local is not yet (or no longer) live at this point: its value is arbitrary
		return env.ex.freshVal(nil, dead.Type().Underlying().(*types.Pointer).Elem(), "dead_"+name), true
	}
	if best == nil {
		return Val{}, false
	}
	if env.ex.isSimpleCell(best) {
		v, ok := env.cur.cells[cellKey{fr.id, best}]
		return v, ok
	}
	p, ok := fr.regs[best]
	if !ok {
		return Val{}, false
	}
	return env.ex.load(env.cur, env.ex.ptrLV(p)), true
}

func parseNumLit(s string) (*big.Int, bool) {
	s = strings.ReplaceAll(s, "_", "")
	b := new(big.Int)
	if _, ok := b.SetString(s, 0); ok {
		return b, true
	}
	return nil, false
}

func (env *SpecEnv) eval(n *Node) Val {
	ex := env.ex
	switch n.Kind {
	case "num":
		b, ok := parseNumLit(n.Val)
		if !ok {
			sfail("bad number %q", n.Val)
		}
		return mathInt(numBig(b))
	case "bool":
		return mathBool(n.Val)
	case "nil":
		return Val{GS: "nil", L: []string{"0"}}
	case "str":
		s, err := strconv.Unquote(n.Val)
		if err != nil {
			sfail("bad string literal %s", n.Val)
		}
		return Val{T: types.Typ[types.String], L: []string{ex.strConst(s)}, lit: &s}
	case "char":
		s, err := strconv.Unquote(n.Val)
		if err != nil || len(s) == 0 {
			sfail("bad char literal %s", n.Val)
		}
		r := []rune(s)
		return mathInt(num(int64(r[0])))
	case "ident":
		if v, ok := env.lookupIdent(n.Name); ok {
			return v
		}
		sfail("unknown identifier %q", n.Name)
	case "unary":
		x := env.eval(n.Args[0])
		if n.Op == "!" {
			if !x.isBool() {
				sfail("! on non-boolean")
			}
			return mathBool(mkNot(x.L[0]))
		}
		if n.Op == "*" {
			if x.T == nil {
				sfail("* on a non-Go value")
			}
			if _, isPtr := x.T.Underlying().(*types.Pointer); !isPtr && x.LV == nil {
				sfail("* on non-pointer %v", x.T)
			}
			lv := x.LV
			if lv == nil {
				lv = ex.ptrLV(x)
			}
			return ex.load(env.cur, lv)
		}
		if !x.isInt() {
			sfail("unary - on non-integer")
		}
		return mathInt(mkSub("0", x.L[0]))
	case "binary":
		return env.evalBinary(n)
	case "ite":
		c := env.eval(n.Args[0])
		a := env.eval(n.Args[1])
		b := env.eval(n.Args[2])
		if len(a.L) != len(b.L) {
			sfail("if-then-else branches differ in shape")
		}
		out := a
		out.L = make([]string, len(a.L))
		for i := range a.L {
			out.L[i] = mkIte(c.L[0], a.L[i], b.L[i])
		}
		return out
	case "let":
		v := env.eval(n.Args[0])
		c := env.child()
		c.vars[n.Name] = v
		return c.eval(n.Args[1])
	case "forall", "exists":
		c := env.child()
		var binders []string
		var ranges []string
		for _, vd := range n.Vars {
			*env.qn++
			nm := fmt.Sprintf("qv_%s_%d", sanitize(vd.Name), *env.qn)
			t := env.resolveType(vd.Type)
			srt := sInt
			if t != nil {
				ls := flatten(t)
				if len(ls) != 1 {
					sfail("quantified variable %s must be scalar", vd.Name)
				}
				srt = ls[0].Sort
				if b, ok := t.(*types.Basic); !ok || (b.Kind() != types.Int && b.Kind() != types.Int64) {
					// int-typed bound variables are mathematical integers (they only
					// ever index sequences); narrower types keep their range
					ranges = append(ranges, scalarRange(ls[0], nm))
				}
				c.vars[vd.Name] = Val{T: t, L: []string{nm}}
			} else {
				c.vars[vd.Name] = mathInt(nm)
			}
			binders = append(binders, "("+nm+" "+srt+")")
		}
		body := c.eval(n.Args[0])
		if !body.isBool() {
			sfail("quantifier body is not boolean")
		}
		rng := mkAnd(ranges...)
		if n.Kind == "forall" {
			return mathBool("(forall (" + strings.Join(binders, " ") + ") " + mkImp(rng, body.L[0]) + ")")
		}
		return mathBool("(exists (" + strings.Join(binders, " ") + ") " + mkAnd(rng, body.L[0]) + ")")
	case "field":
		return env.evalField(n)
	case "index":
		return env.evalIndex(n)
	case "slice":
		return env.evalSlice(n)
	case "call":
		return env.evalCall(n)
	}
	sfail("unsupported expression kind %q", n.Kind)
	return Val{}
}

func (env *SpecEnv) evalBinary(n *Node) Val {
	ex := env.ex
	switch n.Op {
	case "&&", "||", "==>", "<==>":
		a := env.eval(n.Args[0])
		b := env.eval(n.Args[1])
		if !a.isBool() || !b.isBool() {
			sfail("%s on non-boolean operands", n.Op)
		}
		switch n.Op {
		case "&&":
			return mathBool(mkAnd(a.L[0], b.L[0]))
		case "||":
			return mathBool(mkOr(a.L[0], b.L[0]))
		case "==>":
			return mathBool(mkImp(a.L[0], b.L[0]))
		}
		return mathBool(mkEq(a.L[0], b.L[0]))
	case "in":
		k := env.eval(n.Args[0])
		m := env.eval(n.Args[1])
		if m.T == nil {
			sfail("'in' needs a map")
		}
		if _, ok := m.T.Underlying().(*types.Map); !ok {
			sfail("'in' needs a map, got %v", m.T)
		}
		return mathBool(mkAnd(mkNot(mkEq(m.L[0], "0")), mkSelect(ex.mapDom(env.cur, m), k.L[0])))
	case "==", "!=":
		a := env.eval(n.Args[0])
		b := env.eval(n.Args[1])
		eq := env.specEq(a, b)
		if n.Op == "!=" {
			eq = mkNot(eq)
		}
		return mathBool(eq)
	case "<", "<=", ">", ">=":
		a := env.eval(n.Args[0])
		b := env.eval(n.Args[1])
		if !a.isInt() || !b.isInt() {
			if a.T != nil && b.T != nil && types.Identical(a.T, b.T) && len(a.L) == 1 && flatten(a.T)[0].Kind == lkClock {
				return mathBool(mkCmp(n.Op, a.L[0], b.L[0]))
			}
			sfail("comparison %s on non-integers", n.Op)
		}
		return mathBool(mkCmp(n.Op, a.L[0], b.L[0]))
	case "++":
		a := env.eval(n.Args[0])
		b := env.eval(n.Args[1])
		if a.T != nil && isStringType(a.T) {
			return Val{T: a.T, L: []string{ex.strCat(a.L[0], b.L[0])}}
		}
		sfail("++ is only supported on strings")
	case "+", "-", "*", "/", "%", "mod", "div", "^":
		a := env.eval(n.Args[0])
		b := env.eval(n.Args[1])
		if n.Op == "+" && a.T != nil && isStringType(a.T) {
			return Val{T: a.T, L: []string{ex.strCat(a.L[0], b.L[0])}}
		}
		if a.T != nil && len(a.L) == 1 && flatten(a.T)[0].Kind == lkClock && b.isInt() && n.Op == "+" {
			return Val{T: a.T, L: []string{mkAdd(a.L[0], b.L[0])}}
		}
		if !a.isInt() || !b.isInt() {
			sfail("arithmetic %s on non-integers", n.Op)
		}
		switch n.Op {
		case "+":
			return mathInt(mkAdd(a.L[0], b.L[0]))
		case "-":
			return mathInt(mkSub(a.L[0], b.L[0]))
		case "*":
			return mathInt(mkMul(a.L[0], b.L[0]))
		case "/", "div":
			return mathInt(mkDiv(a.L[0], b.L[0]))
		case "%", "mod":
			return mathInt(mkMod(a.L[0], b.L[0]))
		case "^":
			x, ok1 := isNumLit(a.L[0])
			y, ok2 := isNumLit(b.L[0])
			if !ok1 || !ok2 {
				sfail("^ needs literal operands")
			}
			return mathInt(numBig(new(big.Int).Exp(x, y, nil)))
		}
	}
	sfail("unsupported operator %q", n.Op)
	return Val{}
}

// specEq: equality in contracts. Slices compare as views (length + elements).
func (env *SpecEnv) specEq(a, b Val) string {
	ex := env.ex
	if a.GS == "nil" || b.GS == "nil" {
		o := a
		if a.GS == "nil" {
			o = b
		}
		if o.GS == "nil" {
			return "true"
		}
		if o.T == nil {
			sfail("comparison of a mathematical value with nil")
		}
		if o.LV != nil {
			return "false"
		}
		return mkEq(o.L[0], "0")
	}
	if a.T != nil && isStringType(a.T) {
		if b.lit != nil {
			return ex.sc.strEqLit(a.L[0], *b.lit)
		}
		if a.lit != nil {
			return ex.sc.strEqLit(b.L[0], *a.lit)
		}
		return mkEq(a.L[0], b.L[0])
	}
	if a.T != nil && b.T != nil {
		if sa, ok := a.T.Underlying().(*types.Slice); ok {
			if _, ok2 := b.T.Underlying().(*types.Slice); ok2 {
				return env.viewEq(a, b, sa.Elem())
			}
		}
	}
	if a.LV != nil || b.LV != nil {
		a, b = ex.lower(a), ex.lower(b)
	}
	if len(a.L) != len(b.L) {
		sfail("comparison of differently shaped values (%v vs %v)", a.T, b.T)
	}
	var cs []string
	for i := range a.L {
		cs = append(cs, mkEq(a.L[i], b.L[i]))
	}
	return mkAnd(cs...)
}

func (env *SpecEnv) viewEq(a, b Val, elem types.Type) string {
	ex := env.ex
	*env.qn++
	i := fmt.Sprintf("qv_i_%d", *env.qn)
	var cs []string
	for k := range flatten(elem) {
		aa := mkSelect(ex.elemArr(env.cur, elem, k, a.L[0]), idxAdd(a.L[1], i))
		bb := mkSelect(ex.elemArr(env.cur, elem, k, b.L[0]), idxAdd(b.L[1], i))
		cs = append(cs, mkEq(aa, bb))
	}
	return mkAnd(mkEq(a.L[2], b.L[2]),
		"(forall (("+i+" Int)) "+mkImp(mkAnd(mkCmp("<=", "0", i), mkCmp("<", i, a.L[2])), mkAnd(cs...))+")")
}

func (env *SpecEnv) evalField(n *Node) Val {
	ex := env.ex
	// package-qualified name?
	if id := n.Args[0]; id.Kind == "ident" {
		if _, isVar := env.lookupIdent(id.Name); !isVar {
			if pk := env.findImport(id.Name); pk != nil {
				o := pk.Scope().Lookup(n.Name)
				switch x := o.(type) {
				case *types.Const:
					return constToVal(ex, x)
				case *types.Var:
					if sp := ex.eng.prog.Package(pk); sp != nil {
						if g, ok := sp.Members[n.Name].(*ssa.Global); ok {
							return ex.load(env.cur, ex.ptrLV(ex.globalPtr(g)))
						}
					}
				}
				sfail("unknown name %s.%s", id.Name, n.Name)
			}
		}
	}
	x := env.eval(n.Args[0])
	if x.T == nil {
		sfail("field %s of a non-Go value", n.Name)
	}
	return env.selectField(x, n.Name)
}

func (env *SpecEnv) selectField(x Val, name string) Val {
	ex := env.ex
	obj, index, _ := types.LookupFieldOrMethod(x.T, true, env.pkg, name)
	if _, ok := obj.(*types.Var); !ok || obj == nil {
		// unexported field of another package: search manually
		index = findFieldPath(x.T, name)
		if index == nil {
			sfail("no field %q in %v", name, x.T)
		}
	}
	cur := x
	for _, fi := range index {
		if _, isPtr := cur.T.Underlying().(*types.Pointer); isPtr || cur.LV != nil {
			var lv *LValue
			if cur.LV != nil {
				lv = cur.LV
			} else {
				lv = ex.ptrLV(cur)
			}
			stt, ok := lv.T.Underlying().(*types.Struct)
			if !ok {
				sfail("field selection on pointer to %v", lv.T)
			}
			nl := *lv
			nl.Path = append(append([]pathStep(nil), lv.Path...), pathStep{Field: fi})
			nl.T = stt.Field(fi).Type()
			// load immediately unless a further field step follows on a struct
			cur = ex.load(env.cur, &nl)
			continue
		}
		stt, ok := cur.T.Underlying().(*types.Struct)
		if !ok {
			sfail("field selection on %v", cur.T)
		}
		off, cnt := fieldLeafRange(stt, fi)
		cur = Val{T: stt.Field(fi).Type(), L: cur.L[off : off+cnt]}
	}
	return cur
}

func findFieldPath(t types.Type, name string) []int {
	if p, ok := t.Underlying().(*types.Pointer); ok {
		t = p.Elem()
	}
	st, ok := t.Underlying().(*types.Struct)
	if !ok {
		return nil
	}
	for i := 0; i < st.NumFields(); i++ {
		if st.Field(i).Name() == name {
			return []int{i}
		}
	}
	for i := 0; i < st.NumFields(); i++ {
		if st.Field(i).Embedded() {
			if p := findFieldPath(st.Field(i).Type(), name); p != nil {
				return append([]int{i}, p...)
			}
		}
	}
	return nil
}

func (env *SpecEnv) evalIndex(n *Node) Val {
	ex := env.ex
	x := env.eval(n.Args[0])
	i := env.eval(n.Args[1])
	if x.T == nil {
		sfail("index of a non-Go value")
	}
	switch u := x.T.Underlying().(type) {
	case *types.Slice:
		elem := u.Elem()
		leaves := flatten(elem)
		out := Val{T: elem, L: make([]string, len(leaves))}
		for k := range leaves {
			out.L[k] = mkSelect(ex.elemArr(env.cur, elem, k, x.L[0]), idxAdd(x.L[1], i.L[0]))
		}
		return out
	case *types.Array:
		out := Val{T: u.Elem(), L: make([]string, len(x.L))}
		for k := range x.L {
			out.L[k] = mkSelect(x.L[k], i.L[0])
		}
		return out
	case *types.Map:
		v, _ := ex.mapLoadPure(env.cur, x, i)
		return v
	case *types.Basic:
		if isStringType(x.T) {
			return mathInt(app("sat", x.L[0], i.L[0]))
		}
	case *types.Pointer:
		if arr, ok := u.Elem().Underlying().(*types.Array); ok {
			lv := ex.ptrLV(x)
			nl := *lv
			nl.Path = append(append([]pathStep(nil), lv.Path...), pathStep{Field: -1, Index: i.L[0]})
			nl.T = arr.Elem()
			return ex.load(env.cur, &nl)
		}
	}
	sfail("cannot index %v", x.T)
	return Val{}
}

// mapLoadPure: m[k] without side assertions (value when present, else zero).
func (ex *Exec) mapLoadPure(st *State, m, key Val) (Val, string) {
	mt, kl := mapKV(m.T)
	k := key.L[0]
	in := mkAnd(mkNot(mkEq(m.L[0], "0")), mkSelect(ex.mapDom(st, m), k))
	leaves := flatten(mt.Elem())
	out := Val{T: mt.Elem(), L: make([]string, len(leaves))}
	for i, l := range leaves {
		c := ex.comp(st, compMval(m.T, i), sArr(sInt, sArr(kl.Sort, l.Sort)))
		out.L[i] = mkIte(in, mkSelect(mkSelect(c, m.L[0]), k), zeroLeaf(l))
	}
	return out, in
}

func (env *SpecEnv) evalSlice(n *Node) Val {
	x := env.eval(n.Args[0])
	lo := "0"
	if n.Args[1] != nil {
		lo = env.eval(n.Args[1]).L[0]
	}
	if x.T == nil {
		sfail("slice of a non-Go value")
	}
	if isStringType(x.T) {
		hi := app("slen", x.L[0])
		if n.Args[2] != nil {
			hi = env.eval(n.Args[2]).L[0]
		}
		return Val{T: x.T, L: []string{app("ssub", x.L[0], lo, hi)}}
	}
	if _, ok := x.T.Underlying().(*types.Slice); ok {
		hi := x.L[2]
		if n.Args[2] != nil {
			hi = env.eval(n.Args[2]).L[0]
		}
		return Val{T: x.T, L: []string{x.L[0], mkAdd(x.L[1], lo), mkSub(hi, lo), mkSub(x.L[3], lo)}}
	}
	sfail("cannot slice %v", x.T)
	return Val{}
}

func (env *SpecEnv) evalCall(n *Node) Val {
	ex := env.ex
	fn := n.Args[0]
	args := n.Args[1:]
	if fn.Kind != "ident" {
		sfail("unsupported call form")
	}
	switch fn.Name {
	case "old":
		if env.old == nil {
			sfail("old() outside a postcondition")
		}
		c := *env
		// old heap, current locals (a local is not part of the heap)
		c.cur = &State{heap: env.old.heap, cells: env.cur.cells}
		c.old = nil
		return c.eval(args[0])
	case "len":
		x := env.eval(args[0])
		if x.T == nil {
			sfail("len of non-Go value")
		}
		switch u := x.T.Underlying().(type) {
		case *types.Slice:
			return mathInt(x.L[2])
		case *types.Basic:
			return mathInt(app("slen", x.L[0]))
		case *types.Map:
			lc := ex.comp(env.cur, compMlen(x.T), sArr(sInt, sInt))
			return mathInt(mkIte(mkEq(x.L[0], "0"), "0", mkSelect(lc, x.L[0])))
		case *types.Array:
			return mathInt(num(u.Len()))
		}
		sfail("len of %v", x.T)
	case "cap":
		x := env.eval(args[0])
		return mathInt(x.L[3])
	case "lo", "hi", "base":
		// absolute position of a slice inside its backing array
		x := env.eval(args[0])
		if x.T == nil {
			sfail("%s() needs a slice", fn.Name)
		}
		if _, ok := x.T.Underlying().(*types.Slice); !ok {
			sfail("%s() needs a slice", fn.Name)
		}
		switch fn.Name {
		case "lo":
			return mathInt(x.L[1])
		case "hi":
			return mathInt(mkAdd(x.L[1], x.L[2]))
		}
		return mathInt(x.L[0])
	case "at":
		// at(s, k): element at absolute index k of the backing array of s
		x := env.eval(args[0])
		k := env.eval(args[1])
		sl, ok := x.T.Underlying().(*types.Slice)
		if !ok {
			sfail("at() needs a slice")
		}
		elem := sl.Elem()
		leaves := flatten(elem)
		out := Val{T: elem, L: make([]string, len(leaves))}
		for j := range leaves {
			if x.arr != nil {
				out.L[j] = mkSelect(x.arr[j], k.L[0])
			} else {
				out.L[j] = mkSelect(ex.elemArr(env.cur, elem, j, x.L[0]), k.L[0])
			}
		}
		return out
	case "fresh":
		x := env.eval(args[0])
		ref := ex.lower(x).L[0]
		a0 := env.entryAlloc
		if a0 == "" {
			sfail("fresh() outside a postcondition")
		}
		return mathBool(mkAnd(mkNot(mkEq(ref, "0")), mkNot(mkSelect(a0, ref))))
	case "allocated":
		x := env.eval(args[0])
		return mathBool(ex.isAlloc(env.cur, ex.lower(x).L[0]))
	case "int", "Int":
		x := env.eval(args[0])
		if x.isBool() {
			return mathInt(mkIte(x.L[0], "1", "0"))
		}
		return mathInt(x.L[0])
	case "ref":
		x := env.eval(args[0])
		return mathInt(ex.lower(x).L[0])
	case "trimSpace", "toUpper", "toLower":
		x := env.eval(args[0])
		f := map[string]string{"trimSpace": "str_trimspace", "toUpper": "str_upper", "toLower": "str_lower"}[fn.Name]
		ex.sc.fun(f, []string{sStr}, sStr)
		return Val{T: types.Typ[types.String], L: []string{app(f, x.L[0])}}
	case "strUval", "strIval":
		x := env.eval(args[0])
		b := env.eval(args[1])
		f := map[string]string{"strUval": "str_uval", "strIval": "str_ival"}[fn.Name]
		ex.sc.fun(f, []string{sStr, sInt}, sInt)
		return mathInt(app(f, x.L[0], b.L[0]))
	case "strIsNum":
		x := env.eval(args[0])
		b := env.eval(args[1])
		sg := env.eval(args[2])
		ex.sc.fun("str_isnum", []string{sStr, sInt, sBool}, sBool)
		return mathBool(app("str_isnum", x.L[0], b.L[0], sg.L[0]))
	case "hexOK":
		// encoding/hex.DecodeString accepts the text (a pure function of it)
		x := env.eval(args[0])
		ex.sc.fun("hex_ok", []string{sStr}, sBool)
		return mathBool(app("hex_ok", x.L[0]))
	case "strDec":
		x := env.eval(args[0])
		ex.sc.fun("str_dec", []string{sInt}, sStr)
		r := app("str_dec", x.L[0])
		if !strings.Contains(r, "qv_") && !strings.Contains(r, "ql_") {
			saved := ex.sc.pure
			ex.sc.pure = 0
			ex.decFacts(r, x.L[0])
			ex.sc.axiom(mkAnd(mkCmp(">=", slen(r), "1"), mkCmp("<=", slen(r), "20")))
			ex.sc.pure = saved
		}
		return Val{T: types.Typ[types.String], L: []string{r}}
	case "timeUnix":
		a := env.eval(args[0])
		b := env.eval(args[1])
		ex.sc.fun("time_unix", []string{sInt, sInt}, sInt)
		tt := ex.eng.prog.ImportedPackage("time").Pkg.Scope().Lookup("Time").Type()
		return Val{T: tt, L: []string{app("time_unix", a.L[0], b.L[0])}}
	case "timeString":
		a := env.eval(args[0])
		ex.sc.fun("time_string", []string{sInt}, sStr)
		return Val{T: types.Typ[types.String], L: []string{app("time_string", a.L[0])}}
	case "boxStr":
		x := env.eval(args[0])
		ex.sc.fun("box_str", []string{sStr}, sInt)
		return mathInt(app("box_str", x.L[0]))
	case "bitor32", "bitand32":
		a := env.eval(args[0])
		b := env.eval(args[1])
		op := "or"
		if fn.Name == "bitand32" {
			op = "and"
		}
		return mathInt(app(ex.bitUF(op, 32), a.L[0], b.L[0]))
	case "pow2":
		k := env.eval(args[0])
		return mathInt(app(ex.pow2UF(), k.L[0]))
	case "strOf":
		// strOf(b): the string made of the bytes of b (string(b) in Go)
		b := env.eval(args[0])
		if b.T == nil || len(b.L) != 4 {
			sfail("strOf needs a byte slice")
		}
		bt := types.Typ[types.Uint8]
		arr := mkSelect(ex.comp(env.cur, compE(bt, 0), sArr(sInt, sArr(sInt, sInt))), b.L[0])
		return Val{T: types.Typ[types.String], L: []string{app("sfrom", arr, b.L[1], b.L[2])}}
	case "visited":
		// visited(k): key k has already been produced by the map range loop this clause belongs to
		if env.lp == nil || env.fr == nil {
			sfail("visited() is only meaningful in a clause of a range-over-map loop")
		}
		var rng *ssa.Range
		for _, ins := range env.lp.header.Instrs {
			if nx, ok := ins.(*ssa.Next); ok {
				if r, ok := nx.Iter.(*ssa.Range); ok {
					rng = r
				}
			}
		}
		if rng == nil {
			sfail("visited(): the loop is not a range over a map")
		}
		cell, ok := env.cur.cells[cellKey{env.fr.id, ex.eng.hiddenAlloc(rng)}]
		if !ok {
			sfail("visited(): iterator state not available here")
		}
		k := env.eval(args[0])
		return mathBool(mkSelect(cell.L[0], k.L[0]))
	case "splitN":
		ex.splitFuns()
		return mathInt(app("split_n", env.eval(args[0]).L[0], env.eval(args[1]).L[0]))
	case "splitPart":
		// splitPart(s, sep, k): the k-th part of strings.Split(s, sep)
		ex.splitFuns()
		x, sp, k := env.eval(args[0]).L[0], env.eval(args[1]).L[0], env.eval(args[2]).L[0]
		return Val{T: types.Typ[types.String], L: []string{app("ssub", x, app("split_b", x, sp, k), app("split_e", x, sp, k))}}
	case "flagIsSet":
		x := env.eval(args[0])
		if x.lit == nil {
			sfail("flagIsSet needs a string literal")
		}
		t, ok := ex.flagSet[*x.lit]
		if !ok {
			sfail("flagIsSet(%q): no flag.FlagSet.Parse with visible registrations before this point", *x.lit)
		}
		return mathBool(t)
	case "flagLeftover":
		return mathInt(ex.flagLeft(env.cur))
	case "ospid":
		ex.sc.global("os_pid", sInt)
		return mathInt("os_pid")
	case "envowned":
		x := env.eval(args[0])
		own := ex.comp(env.cur, "envowned", sArr(sInt, sBool))
		return mathBool(mkSelect(own, ex.lower(x).L[0]))
	case "held", "done":
		x := env.eval(args[0])
		if len(x.L) != 1 {
			sfail("held() needs a mutex")
		}
		return mathBool(x.L[0])
	case "isNil":
		x := env.eval(args[0])
		return mathBool(mkEq(x.L[0], "0"))
	case "typeIs":
		x := env.eval(args[0])
		t := env.resolveType(nodeText(args[1]))
		return mathBool(mkEq(x.L[0], ex.tid(t)))
	case "payload":
		x := env.eval(args[0])
		return mathInt(x.L[1])
	case "errIs":
		a := env.eval(args[0])
		b := env.eval(args[1])
		return mathBool(ex.errIs(a, b))
	case "errno":
		// errno(n): the error value syscall.Errno(n)
		x := env.eval(args[0])
		return Val{T: ex.eng.errorType(), L: []string{ex.tid(ex.eng.errnoType()), x.L[0]}}
	case "le32":
		b := env.eval(args[0])
		o := env.eval(args[1])
		return mathInt(ex.le(env.cur, b, o.L[0], 4))
	case "le16":
		b := env.eval(args[0])
		o := env.eval(args[1])
		return mathInt(ex.le(env.cur, b, o.L[0], 2))
	case "testbit":
		x := env.eval(args[0])
		k := env.eval(args[1])
		return mathBool(mkEq(mkMod(mkDiv(x.L[0], app(ex.pow2UF(), k.L[0])), "2"), "1"))
	case "clock":
		// the ghost clock: value of the most recent time.Now() reading
		c, ok := env.cur.heap["clock"]
		if !ok {
			c = ex.sc.global("H0_clock", sInt)
		}
		tt := ex.eng.prog.ImportedPackage("time").Pkg.Scope().Lookup("Time").Type()
		return Val{T: tt, L: []string{c}}
	case "envlen":
		return mathInt(ex.envLen(env.cur))
	case "envkind":
		i := env.eval(args[0])
		return mathInt(mkSelect(ex.comp(env.cur, "envlog|kind", sArr(sInt, sInt)), i.L[0]))
	case "envarg":
		i := env.eval(args[0])
		k := env.eval(args[1])
		return mathInt(mkSelect(mkSelect(ex.comp(env.cur, "envlog|arg", sArr(sInt, sArr(sInt, sInt))), i.L[0]), k.L[0]))
	case "envbyte":
		// byte k of the first []byte argument of entry i, as it was at the time of the call
		i := env.eval(args[0])
		k := env.eval(args[1])
		bc := ex.comp(env.cur, "envlog|bytes", sArr(sInt, sArr(sInt, sInt)))
		oc := ex.comp(env.cur, "envlog|boff", sArr(sInt, sInt))
		return mathInt(mkSelect(mkSelect(bc, i.L[0]), mkAdd(mkSelect(oc, i.L[0]), k.L[0])))
	case "envrbyte":
		// byte k of the []byte field of the first element returned by entry i, as it was when the call returned
		i := env.eval(args[0])
		k := env.eval(args[1])
		bc := ex.comp(env.cur, "envlog|rbytes", sArr(sInt, sArr(sInt, sInt)))
		oc := ex.comp(env.cur, "envlog|rboff", sArr(sInt, sInt))
		return mathInt(mkSelect(mkSelect(bc, i.L[0]), mkAdd(mkSelect(oc, i.L[0]), k.L[0])))
	case "envle32":
		i := env.eval(args[0])
		k := env.eval(args[1])
		bc := ex.comp(env.cur, "envlog|bytes", sArr(sInt, sArr(sInt, sInt)))
		oc := ex.comp(env.cur, "envlog|boff", sArr(sInt, sInt))
		return mathInt(composeLE(mkSelect(bc, i.L[0]), mkAdd(mkSelect(oc, i.L[0]), k.L[0]), 4))
	case "envle16":
		i := env.eval(args[0])
		k := env.eval(args[1])
		bc := ex.comp(env.cur, "envlog|bytes", sArr(sInt, sArr(sInt, sInt)))
		oc := ex.comp(env.cur, "envlog|boff", sArr(sInt, sInt))
		return mathInt(composeLE(mkSelect(bc, i.L[0]), mkAdd(mkSelect(oc, i.L[0]), k.L[0]), 2))
	case "ptr":
		// ptr(T, r): the object reference r seen as a *T
		t := env.resolveType(nodeText(args[0]))
		r := env.eval(args[1])
		return Val{T: types.NewPointer(t), L: []string{r.L[0]}}
	case "tidOf":
		t := env.resolveType(nodeText(args[0]))
		return mathInt(ex.tid(t))
	case "s32":
		x := env.eval(args[0])
		return mathInt(mkIte(mkCmp(">=", x.L[0], "2147483648"), mkSub(x.L[0], "4294967296"), x.L[0]))
	case "recvMsg":
		// first message of the slice returned by log entry i (results start at index 16), read in the current heap
		i := env.eval(args[0])
		argC := ex.comp(env.cur, "envlog|arg", sArr(sInt, sArr(sInt, sInt)))
		row := mkSelect(argC, i.L[0])
		ref, off := mkSelect(row, "16"), mkSelect(row, "17")
		mt := ex.eng.prog.ImportedPackage("syscall").Pkg.Scope().Lookup("NetlinkMessage").Type()
		leaves := flatten(mt)
		out := Val{T: mt, L: make([]string, len(leaves))}
		for j := range leaves {
			out.L[j] = mkSelect(ex.elemArr(env.cur, mt, j, ref), idxAdd(off, "0"))
		}
		return out
	case "envkindOf":
		return mathInt(num(int64(ex.eng.envKind(nodeText(args[0])))))
	}
	if pd := ex.eng.specs.Preds[fn.Name]; pd != nil {
		if len(args) != len(pd.Params) {
			sfail("%s expects %d arguments", fn.Name, len(pd.Params))
		}
		if pd.Rec {
			return env.evalRec(pd, args)
		}
		if env.depth > 20 {
			sfail("spec function recursion too deep in %s", fn.Name)
		}
		c := env.child()
		c.depth++
		for i, p := range pd.Params {
			c.vars[p.Name] = env.eval(args[i])
		}
		return c.eval(pd.Body)
	}
	// uninterpreted spec function declared on demand: uf_name(args...) : Int
	if strings.HasPrefix(fn.Name, "uf_") || strings.HasPrefix(fn.Name, "ufb_") || strings.HasPrefix(fn.Name, "ufs_") {
		var as, sorts []string
		for _, a := range args {
			v := env.eval(a)
			v = ex.lower(v)
			for i, t := range v.L {
				as = append(as, t)
				s := sInt
				if v.T != nil {
					s = flatten(v.T)[i].Sort
				} else if v.GS != "" && v.GS != "nil" {
					s = v.GS
				}
				sorts = append(sorts, s)
			}
		}
		ret := sInt
		if strings.HasPrefix(fn.Name, "ufb_") {
			ret = sBool
		}
		if strings.HasPrefix(fn.Name, "ufs_") {
			ret = sStr
		}
		ex.sc.fun(fn.Name, sorts, ret)
		if len(as) == 0 {
			sfail("uninterpreted spec function %s needs at least one argument", fn.Name)
		}
		if ret == sBool {
			return mathBool(app(fn.Name, as...))
		}
		if ret == sStr {
			return Val{T: types.Typ[types.String], L: []string{app(fn.Name, as...)}}
		}
		return mathInt(app(fn.Name, as...))
	}
	sfail("unknown function %q in contract", fn.Name)
	return Val{}
}

func nodeText(n *Node) string {
	switch n.Kind {
	case "ident":
		return n.Name
	case "field":
		return nodeText(n.Args[0]) + "." + n.Name
	case "unary":
		return n.Op + nodeText(n.Args[0])
	case "star":
		return "*"
	case "binary":
		if n.Op == "*" {
			return nodeText(n.Args[0]) + "*" + nodeText(n.Args[1])
		}
	}
	return ""
}

// ---------------------------------------------------------------------------
// contract use

func (ex *Exec) pkgOf(fn *ssa.Function) *types.Package {
	if fn.Pkg != nil {
		return fn.Pkg.Pkg
	}
	if fn.Parent() != nil {
		return ex.pkgOf(fn.Parent())
	}
	if o := fn.Object(); o != nil {
		return o.Pkg()
	}
	return nil
}

func (ex *Exec) newSpecEnv(fn *ssa.Function, cur, old *State) *SpecEnv {
	q := &ex.qcounter
	return &SpecEnv{ex: ex, cur: cur, old: old, vars: map[string]Val{}, pkg: ex.pkgOf(fn), qn: q}
}

func (ex *Exec) bindParams(env *SpecEnv, fn *ssa.Function, ctr *Contract, args []Val) {
	sig := fn.Signature
	var names []string
	if sig.Recv() != nil {
		names = append(names, sig.Recv().Name())
	}
	for i := 0; i < sig.Params().Len(); i++ {
		names = append(names, sig.Params().At(i).Name())
	}
	if ctr != nil && len(ctr.ParamNames) == len(names) {
		names = ctr.ParamNames
	}
	for i, nm := range names {
		if i < len(args) && nm != "" && nm != "_" {
			env.vars[nm] = args[i]
		}
		if i < len(args) {
			env.vars[fmt.Sprintf("arg%d", i)] = args[i]
		}
	}
}

func (ex *Exec) bindResults(env *SpecEnv, fn *ssa.Function, vals []Val) {
	res := fn.Signature.Results()
	for i := 0; i < res.Len() && i < len(vals); i++ {
		env.vars[fmt.Sprintf("result%d", i)] = vals[i]
		if nm := res.At(i).Name(); nm != "" && nm != "_" {
			if _, shadow := env.vars[nm]; !shadow {
				env.vars[nm] = vals[i]
			}
		}
	}
	if res.Len() == 1 && len(vals) == 1 {
		env.vars["result"] = vals[0]
	}
}

// forall-params become fresh constants (universally quantified in every
// obligation of the unit, existentially unconstrained at call sites: there
// they are only usable if the clause does not depend on them).
func (ex *Exec) bindLogical(env *SpecEnv, ctr *Contract, st *State) {
	for _, vd := range ctr.ForallPars {
		t := env.resolveType(vd.Type)
		if t == nil {
			env.vars[vd.Name] = mathInt(ex.sc.fresh("lv_"+vd.Name, sInt))
		} else {
			env.vars[vd.Name] = ex.freshVal(st, t, "lv_"+vd.Name)
		}
	}
}

// atReturn: obligations at a return of the unit's top function.
func (ex *Exec) atReturn(fr *Frame, st *State, reach string, vals []Val, pos token.Pos) {
	ex.lockAtReturn(fr, st, reach, pos)
	ctr := fr.ctr
	if ctr == nil {
		return
	}
	env := ex.newSpecEnv(fr.fn, st, fr.entry)
	env.entryAlloc = fr.entryAlloc
	ex.bindParams(env, fr.fn, ctr, fr.params)
	for k, v := range fr.logical {
		env.vars[k] = v
	}
	ex.bindResults(env, fr.fn, vals)
	for i, cl := range ctr.Ensures {
		if ex.interfere && len(cl.Tags) > 0 && !tagsIntersect(cl.Tags, ex.unitTags) {
			// a clause of the sequential reading (other properties) is neither claimed
			// nor assumed when interference is modelled
			continue
		}
		g := env.evalBool(cl.E, fmt.Sprintf("%s ensures #%d", ctr.Key, i+1))
		ex.oblige(fr, "post", cl.Tags, pos, "ensures "+cl.Text, reach, g)
	}
	// witness clauses may name the function's locals
	env.fr = fr
	for i, cl := range ctr.Witness {
		g := env.evalBool(cl.E, fmt.Sprintf("%s witness #%d", ctr.Key, i+1))
		ex.oblige(fr, "post", cl.Tags, pos, "witness "+cl.Text, reach, g)
	}
}

// assumeRequires: entry assumptions of the unit's top function.
func (ex *Exec) assumeRequires(fr *Frame, st *State) {
	ctr := fr.ctr
	if ctr == nil {
		return
	}
	env := ex.newSpecEnv(fr.fn, st, nil)
	ex.bindParams(env, fr.fn, ctr, fr.params)
	ex.bindLogical(env, ctr, st)
	fr.logical = map[string]Val{}
	for _, vd := range ctr.ForallPars {
		fr.logical[vd.Name] = env.vars[vd.Name]
	}
	for i, cl := range ctr.Requires {
		g := env.evalBool(cl.E, fmt.Sprintf("%s requires #%d", ctr.Key, i+1))
		ex.sc.assert(g)
	}
	// modifies references are evaluated in the entry state
	for _, m := range ctr.Modifies {
		for _, mi := range ex.evalModifies(env, m) {
			if mi.ref != "" {
				ctr.modRefs = append(ctr.modRefs, mi.ref)
			}
		}
	}
}

type modItem struct {
	comp    string // component name
	ref     string // "" = whole component
	srt     string
	envOnly bool // whole component, but only environment-owned objects may change
}

// evalModifies turns one modifies item into component/ref pairs.
func (ex *Exec) evalModifies(env *SpecEnv, n *Node) []modItem {
	var out []modItem
	ex.sc.pure++
	defer func() { ex.sc.pure-- }()
	addLeaves := func(root types.Type, lo, cnt int, ref string, kind string) {
		ls := flatten(root)
		for k := lo; k < lo+cnt; k++ {
			switch kind {
			case "H":
				out = append(out, modItem{comp: compH(root, k), ref: ref, srt: sArr(sInt, ls[k].Sort)})
			case "E":
				out = append(out, modItem{comp: compE(root, k), ref: ref, srt: sArr(sInt, sArr(sInt, ls[k].Sort))})
			}
		}
	}
	switch n.Kind {
	case "field":
		// T.f / pkg.T.f (type-qualified: whole component) or x.f / x.*
		id := n.Args[0]
		if id.Kind == "field" && id.Args[0].Kind == "ident" {
			if _, isVar := env.lookupIdent(id.Args[0].Name); !isVar && env.findImport(id.Args[0].Name) != nil {
				id = &Node{Kind: "ident", Name: id.Args[0].Name + "." + id.Name}
			}
		}
		if id.Kind == "ident" {
			if _, isVar := env.lookupIdent(id.Name); !isVar {
				t := env.resolveType(id.Name)
				if t == nil {
					sfail("modifies: unknown type %s", id.Name)
				}
				st, ok := t.Underlying().(*types.Struct)
				if !ok {
					sfail("modifies %s.%s: not a struct type", id.Name, n.Name)
				}
				if n.Name == "*" {
					addLeaves(t, 0, len(flatten(t)), "", "H")
					return out
				}
				for i := 0; i < st.NumFields(); i++ {
					if st.Field(i).Name() == n.Name {
						off, cnt := fieldLeafRange(st, i)
						addLeaves(t, off, cnt, "", "H")
						return out
					}
				}
				sfail("modifies: no field %s in %s", n.Name, id.Name)
			}
		}
		x := env.eval(n.Args[0])
		pt, ok := x.T.Underlying().(*types.Pointer)
		if !ok || x.LV != nil {
			sfail("modifies x.f needs x to be an object pointer")
		}
		root := pt.Elem()
		if n.Name == "*" {
			addLeaves(root, 0, len(flatten(root)), x.L[0], "H")
			return out
		}
		path := findFieldPath(root, n.Name)
		if path == nil {
			sfail("modifies: no field %s", n.Name)
		}
		var steps []pathStep
		for _, fi := range path {
			steps = append(steps, pathStep{Field: fi})
		}
		nav := navigate(root, steps)
		addLeaves(root, nav.lo, nav.n, x.L[0], "H")
	case "call":
		fn := n.Args[0]
		if fn.Kind != "ident" {
			sfail("bad modifies item")
		}
		switch fn.Name {
		case "elems":
			x := env.eval(n.Args[1])
			sl, ok := x.T.Underlying().(*types.Slice)
			if !ok {
				sfail("elems() needs a slice")
			}
			addLeaves(sl.Elem(), 0, len(flatten(sl.Elem())), x.L[0], "E")
		case "elemsOf":
			t := env.resolveType(nodeText(n.Args[1]))
			addLeaves(t, 0, len(flatten(t)), "", "E")
		case "mapOf":
			x := env.eval(n.Args[1])
			mt, kl := mapKV(x.T)
			out = append(out, modItem{comp: compMdom(x.T), ref: x.L[0], srt: sArr(sInt, sArr(kl.Sort, sBool))})
			out = append(out, modItem{comp: compMlen(x.T), ref: x.L[0], srt: sArr(sInt, sInt)})
			for k, l := range flatten(mt.Elem()) {
				out = append(out, modItem{comp: compMval(x.T, k), ref: x.L[0], srt: sArr(sInt, sArr(kl.Sort, l.Sort))})
			}
		default:
			sfail("bad modifies item %s()", fn.Name)
		}
	case "ident":
		switch n.Name {
		case "alloc":
			out = append(out, modItem{comp: compAlloc, ref: "", srt: sArr(sInt, sBool)})
		case "envlog":
			out = append(out, modItem{comp: "envlog|len", ref: "", srt: sInt}, modItem{comp: "envlog|kind", ref: "", srt: sArr(sInt, sInt)}, modItem{comp: "envlog|arg", ref: "", srt: sArr(sInt, sArr(sInt, sInt))},
				modItem{comp: "envlog|bytes", ref: "", srt: sArr(sInt, sArr(sInt, sInt))}, modItem{comp: "envlog|boff", ref: "", srt: sArr(sInt, sInt)},
				modItem{comp: "envlog|rbytes", ref: "", srt: sArr(sInt, sArr(sInt, sInt))}, modItem{comp: "envlog|rboff", ref: "", srt: sArr(sInt, sInt)})
		case "clock":
			out = append(out, modItem{comp: "clock", ref: "", srt: sInt})
		case "envbytes":
			// byte arrays owned by the environment (receive buffers)
			out = append(out, modItem{comp: compE(types.Typ[types.Uint8], 0), srt: sArr(sInt, sArr(sInt, sInt)), envOnly: true})
			out = append(out, modItem{comp: "envowned", srt: sArr(sInt, sBool)})
		case "nothing":
		default:
			sfail("bad modifies item %s", n.Name)
		}
	default:
		sfail("bad modifies item")
	}
	return out
}

// modularCall: use the callee's contract instead of its body.
func (ex *Exec) modularCall(fr *Frame, st *State, reach string, callee *ssa.Function, ctr *Contract, args []Val, sig *types.Signature, pos token.Pos) Val {
	if ctr.Assume {
		ex.assumedUsed["assumed contract: "+ctr.Key] = true
	}
	pre := st.clone()
	env := ex.newSpecEnv(callee, st, nil)
	ex.bindParams(env, callee, ctr, args)
	if len(ctr.ForallPars) > 0 {
		ex.bindLogical(env, ctr, st)
	}
	for i, cl := range ctr.Requires {
		g := env.evalBool(cl.E, fmt.Sprintf("%s requires #%d", ctr.Key, i+1))
		ex.oblige(fr, "pre", cl.Tags, pos, "precondition of "+ctr.Key+": "+cl.Text, reach, g)
	}
	// recursion: the callee's variant must be smaller than the caller's
	if ctr.Decreases != nil && ex.topFrame != nil && ex.topFrame.fn == callee {
		calleeV := env.evalInt(ctr.Decreases, "decreases")
		tenv := ex.newSpecEnv(callee, ex.topFrame.entry, nil)
		ex.bindParams(tenv, callee, ctr, ex.topFrame.params)
		callerV := tenv.evalInt(ctr.Decreases, "decreases")
		ex.oblige(fr, "variant", nil, pos, "recursive call decreases "+nodeTextAny(ctr.Decreases), reach, mkAnd(mkCmp("<", calleeV, callerV), mkCmp(">=", calleeV, "0")))
	}
	// havoc the callee's frame
	for _, m := range ctr.Modifies {
		for _, mi := range ex.safeEvalModifies(env, m, ctr.Key) {
			if mi.comp == "envlog|len" || mi.comp == "clock" {
				ex.compSort[mi.comp] = sInt
				var old string
				if mi.comp == "clock" {
					o, ok := st.heap["clock"]
					if !ok {
						o = ex.sc.global("H0_clock", sInt)
					}
					old = o
				} else {
					old = ex.envLen(st)
				}
				nw := ex.sc.fresh(sanitize(mi.comp), sInt)
				ex.sc.assert(mkCmp(">=", nw, old))
				st.heap[mi.comp] = nw
				ex.noteWrite(mi.comp, "*")
				continue
			}
			old := ex.comp(st, mi.comp, mi.srt)
			nw := ex.sc.fresh("cm_"+trunc(sanitize(mi.comp), 20), mi.srt)
			if mi.comp == compAlloc {
				ex.sc.assert(fmt.Sprintf("(forall ((r Int)) (! (=> (select %s r) (select %s r)) :pattern ((select %s r))))", old, nw, nw))
				st.heap[mi.comp] = nw
				ex.noteWrite(mi.comp, "*")
				continue
			}
			if mi.comp == "envowned" {
				// ownership only grows, and an object that existed before the call and
				// was private stays private unless it was passed to the callee
				ex.sc.assert(fmt.Sprintf("(forall ((r Int)) (! (=> (select %s r) (select %s r)) :pattern ((select %s r))))", old, nw, nw))
				allocPre := ex.comp(pre, compAlloc, sArr(sInt, sBool))
				excl := []string{mkSelect(allocPre, "r"), mkNot(mkSelect(old, "r"))}
				for _, a := range args {
					if a.T == nil || a.LV != nil || a.Fn != nil {
						continue
					}
					ls := flatten(a.T)
					if len(ls) != len(a.L) {
						continue
					}
					for i, l := range ls {
						if len(l.Dims) == 0 && l.Kind == lkSliceRef {
							excl = append(excl, mkNot(mkEq("r", a.L[i])))
						}
					}
				}
				ex.sc.assert(fmt.Sprintf("(forall ((r Int)) (! (=> %s (not (select %s r))) :pattern ((select %s r))))", mkAnd(excl...), nw, nw))
				st.heap[mi.comp] = nw
				ex.noteWrite(mi.comp, "*")
				continue
			}
			if mi.ref == "" {
				if mi.envOnly {
					own := ex.comp(st, "envowned", sArr(sInt, sBool))
					ex.sc.assert(fmt.Sprintf("(forall ((r Int)) (! (=> (not (select %s r)) (= (select %s r) (select %s r))) :pattern ((select %s r))))", own, nw, old, nw))
				}
				st.heap[mi.comp] = nw
				ex.noteWrite(mi.comp, "*")
			} else {
				ex.setComp(st, mi.comp, mi.srt, mkStore(old, mi.ref, mkSelect(nw, mi.ref)))
				ex.noteWrite(mi.comp, mi.ref)
			}
		}
	}
	if !ctr.HasModifies && !ctr.Pure && !ctr.Assume {
		panic(unsupported("contract of " + ctr.Key + " has no modifies clause (write 'modifies nothing' or 'pure')"))
	}
	ex.envlogFrame(pre, st)
	res := ex.freshResults(st, sig, sanitize(callee.Name()))
	post := ex.newSpecEnv(callee, st, pre)
	post.entryAlloc = ex.comp(pre, compAlloc, sArr(sInt, sBool))
	ex.bindParams(post, callee, ctr, args)
	for k, v := range env.vars {
		if _, ok := post.vars[k]; !ok {
			post.vars[k] = v
		}
	}
	ex.bindResults(post, callee, res)
	// logical variables of the callee's contract are universally quantified in
	// what the caller may assume
	var binders []string
	for _, vd := range ctr.ForallPars {
		ex.qcounter++
		nm := fmt.Sprintf("ql_%s_%d", sanitize(vd.Name), ex.qcounter)
		t := post.resolveType(vd.Type)
		srt := sInt
		if t != nil {
			srt = flatten(t)[0].Sort
			post.vars[vd.Name] = Val{T: t, L: []string{nm}}
		} else {
			post.vars[vd.Name] = mathInt(nm)
		}
		binders = append(binders, "("+nm+" "+srt+")")
	}
	for i, cl := range ctr.Ensures {
		g := post.evalBool(cl.E, fmt.Sprintf("%s ensures #%d", ctr.Key, i+1))
		if len(binders) > 0 && strings.Contains(g, "ql_") {
			g = "(forall (" + strings.Join(binders, " ") + ") " + g + ")"
		}
		ex.sc.assert(mkImp(reach, g))
	}
	return packResults(sig, res)
}

func (ex *Exec) safeEvalModifies(env *SpecEnv, n *Node, what string) (out []modItem) {
	defer func() {
		if r := recover(); r != nil {
			if e, ok := r.(specErr); ok {
				panic(unsupported("modifies clause of " + what + ": " + e.msg))
			}
			panic(r)
		}
	}()
	return ex.evalModifies(env, n)
}

// loop clauses are evaluated with the frame's locals visible
func (ex *Exec) evalLoopClause(fr *Frame, st *State, cl Clause, lp *loopRec) string {
	env := ex.loopEnv(fr, st)
	env.rangeAlloc = rangeAllocOf(lp)
	env.lp = lp
	return env.evalBool(cl.E, "loop invariant "+cl.Text)
}

func (ex *Exec) evalLoopExpr(fr *Frame, st *State, n *Node, lp *loopRec) string {
	env := ex.loopEnv(fr, st)
	env.rangeAlloc = rangeAllocOf(lp)
	env.lp = lp
	return env.evalInt(n, "loop variant")
}

// rangeAllocOf: the hidden index of the range loop lp (it is stepped in the
// loop's own header), so that "rangeindex" in a loop clause means this loop's.
func rangeAllocOf(lp *loopRec) *ssa.Alloc {
	if lp == nil {
		return nil
	}
	for _, ins := range lp.header.Instrs {
		if st, ok := ins.(*ssa.Store); ok {
			if a, ok := st.Addr.(*ssa.Alloc); ok && a.Comment == "rangeindex" {
				return a
			}
		}
	}
	return nil
}

func (ex *Exec) loopEnv(fr *Frame, st *State) *SpecEnv {
	env := ex.newSpecEnv(fr.fn, st, fr.entry)
	env.fr = fr
	env.atLoop = true
	env.entryAlloc = fr.entryAlloc
	ctr := ex.eng.specs.contractFor(shortFn(fr.fn))
	ex.bindParams(env, fr.fn, ctr, fr.params)
	// parameters are shadowed by their spilled cells when live
	for k := range env.vars {
		if v, ok := env.localByName(k); ok {
			env.vars[k] = v
		}
	}
	for k, v := range fr.logical {
		env.vars[k] = v
	}
	return env
}

// evalRec: application of a recursive spec function. The function is an
// uninterpreted symbol whose defining equation (forall parameters. f(ps) = body)
// is asserted once per script; recursion must descend on the first parameter.
func (env *SpecEnv) evalRec(pd *PredDef, args []*Node) Val {
	ex := env.ex
	type pinfo struct {
		t     types.Type
		sorts []string
		seq   bool
	}
	var infos []pinfo
	var sorts []string
	for _, p := range pd.Params {
		t := env.resolveType(p.Type)
		pi := pinfo{t: t}
		if t == nil {
			pi.sorts = []string{sInt}
		} else if sl, ok := t.Underlying().(*types.Slice); ok {
			pi.seq = true
			for _, l := range flatten(sl.Elem()) {
				pi.sorts = append(pi.sorts, sArr(sInt, l.Sort))
			}
		} else {
			ls := flatten(t)
			if len(ls) != 1 {
				sfail("parameter %s of %s must be scalar or a slice", p.Name, pd.Name)
			}
			pi.sorts = []string{ls[0].Sort}
		}
		infos = append(infos, pi)
		sorts = append(sorts, pi.sorts...)
	}
	retT := env.resolveType(pd.Ret)
	retSort := sInt
	if pd.Ret == "bool" {
		retSort = sBool
	} else if retT != nil {
		retSort = flatten(retT)[0].Sort
	}
	fname := "rec_" + pd.Name
	if _, ok := ex.sc.decls[fname]; !ok && pd.Unfold && !env.exportRec {
		ex.sc.fun(fname, sorts, retSort)
	}
	if _, ok := ex.sc.decls[fname]; !ok {
		ex.sc.fun(fname, sorts, retSort)
		// defining axiom
		c := &SpecEnv{ex: ex, cur: env.cur, vars: map[string]Val{}, pkg: env.pkg, qn: env.qn, depth: env.depth + 1, noUnfold: true}
		var binders, actuals []string
		for i, p := range pd.Params {
			pi := infos[i]
			var names []string
			for j, srt := range pi.sorts {
				*env.qn++
				nm := fmt.Sprintf("qr_%s_%d_%d", sanitize(p.Name), j, *env.qn)
				binders = append(binders, "("+nm+" "+srt+")")
				names = append(names, nm)
			}
			actuals = append(actuals, names...)
			switch {
			case pi.seq:
				c.vars[p.Name] = Val{T: pi.t, L: []string{"0", "0", "0", "0"}, arr: names}
			case pi.t == nil:
				c.vars[p.Name] = mathInt(names[0])
			default:
				c.vars[p.Name] = Val{T: pi.t, L: names}
			}
		}
		ex.sc.pure++
		body := c.eval(pd.Body)
		ex.sc.pure--
		app0 := app(fname, actuals...)
		ex.sc.axiom("(forall (" + strings.Join(binders, " ") + ") (! (= " + app0 + " " + body.L[0] + ") :pattern (" + app0 + ")))")
	}
	var actual []string
	for i, a := range args {
		v := env.eval(a)
		if infos[i].seq {
			if v.arr != nil {
				actual = append(actual, v.arr...)
				continue
			}
			sl := v.T.Underlying().(*types.Slice)
			for j := range flatten(sl.Elem()) {
				actual = append(actual, ex.elemArr(env.cur, sl.Elem(), j, v.L[0]))
			}
			continue
		}
		if v.isBool() && infos[i].sorts[0] == sBool || len(v.L) == 1 {
			actual = append(actual, v.L[0])
			continue
		}
		sfail("argument %d of %s has the wrong shape", i, pd.Name)
	}
	t := app(fname, actual...)
	if pd.Unfold && !env.noUnfold {
		env.unfoldRec(pd, fname, t, args)
	}
	if retSort == sBool {
		return mathBool(t)
	}
	if retT != nil {
		return Val{T: retT, L: []string{t}}
	}
	return mathInt(t)
}

var boundVarRe = regexp.MustCompile(`q[vl]_[A-Za-z0-9_]+`)

// unfoldRec asserts the defining equation of a recursive spec function for one
// application (generalised over the bound variables that occur in it). The
// recursive calls inside the body are not unfolded again: a contract that needs
// two levels has to mention the intermediate application itself.
func (env *SpecEnv) unfoldRec(pd *PredDef, fname, t string, args []*Node) {
	ex := env.ex
	key := "unfold:" + t
	if _, ok := ex.sc.decls[key]; ok {
		return
	}
	ex.sc.decls[key] = "done"
	c := &SpecEnv{ex: ex, cur: env.cur, old: env.old, fr: env.fr, vars: map[string]Val{}, pkg: env.pkg, qn: env.qn, depth: env.depth + 1, noUnfold: true, entryAlloc: env.entryAlloc}
	for i, p := range pd.Params {
		c.vars[p.Name] = env.eval(args[i])
	}
	ex.sc.pure++
	body := c.eval(pd.Body)
	ex.sc.pure--
	eq := mkEq(t, body.L[0])
	seen := map[string]bool{}
	var binders []string
	for _, m := range boundVarRe.FindAllString(eq, -1) {
		if !seen[m] {
			seen[m] = true
			binders = append(binders, "("+m+" Int)")
		}
	}
	if len(binders) == 0 {
		ex.sc.axiom(eq)
		return
	}
	ex.sc.axiom("(forall (" + strings.Join(binders, " ") + ") (! " + eq + " :pattern (" + t + ")))")
}

func nodeTextAny(n *Node) string {
	if t := nodeText(n); t != "" {
		return t
	}
	if n.Kind == "call" && len(n.Args) > 1 {
		return nodeText(n.Args[0]) + "(" + nodeTextAny(n.Args[1]) + ")"
	}
	return "the variant"
}

func tagsIntersect(a, b []string) bool {
	for _, x := range a {
		for _, y := range b {
			if x == y {
				return true
			}
		}
	}
	return false
}

func storedInLoop(lp *loopRec, a *ssa.Alloc) bool {
	for b := range lp.blocks {
		for _, ins := range b.Instrs {
			if st, ok := ins.(*ssa.Store); ok && st.Addr == a {
				return true
			}
		}
	}
	return false
}
