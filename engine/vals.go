package main

// Symbolic values: every Go value is flattened into a list of scalar SMT
// leaves (Int / Bool / Str or arrays of those). Pointers are either object
// references (Int) or engine-level lvalues (interior pointers).

import (
	"fmt"
	"go/types"
	"math/big"
	"regexp"
	"strings"

	"golang.org/x/tools/go/ssa"
)

type leafKind int

const (
	lkInt      leafKind = iota // machine integer (range from Go type)
	lkBool                     //
	lkStr                      //
	lkRef                      // object reference (pointer, map, chan, func id), >= 0, 0 = nil
	lkSliceRef                 // slice backing array ref
	lkSliceOff
	lkSliceLen
	lkSliceCap
	lkTid   // interface dynamic type id
	lkPay   // interface payload
	lkClock // time.Time collapsed to an abstract clock value
	lkGhost // ghost bool (mutex held, once done)
	lkReal
)

type Leaf struct {
	Name  string // dotted path, for diagnostics
	Sort  string // SMT sort (with Array wrappers for Go arrays)
	Base  string // SMT sort of the scalar
	Kind  leafKind
	T     types.Type // Go type of the scalar (for integer ranges)
	Dims  []int64    // Go array dimensions wrapped around the scalar (outermost first)
	PtrTo types.Type // for lkRef pointers: pointee type
}

var flatCache = map[string][]Leaf{}

var sizes = types.SizesFor("gc", "amd64")

var aliasRe = regexp.MustCompile(`\b(byte|rune)\b`)

func typeKey(t types.Type) string {
	s := typeKey0(t)
	return aliasRe.ReplaceAllStringFunc(s, func(m string) string {
		if m == "byte" {
			return "uint8"
		}
		return "int32"
	})
}

func isNamed(t types.Type, pkg, name string) bool {
	n, ok := t.(*types.Named)
	if !ok {
		if a, ok2 := t.(*types.Alias); ok2 {
			return isNamed(types.Unalias(a), pkg, name)
		}
		return false
	}
	o := n.Obj()
	return o.Name() == name && o.Pkg() != nil && o.Pkg().Path() == pkg
}

func flatten(t types.Type) []Leaf {
	key := types.TypeString(t, nil)
	if l, ok := flatCache[key]; ok {
		return l
	}
	l := flatten1(t, "")
	flatCache[key] = l
	return l
}

func flatten1(t types.Type, name string) []Leaf {
	t = types.Unalias(t)
	switch {
	case isNamed(t, "time", "Time"):
		return []Leaf{{Name: name, Sort: sInt, Base: sInt, Kind: lkClock, T: t}}
	case isNamed(t, "sync", "Mutex"), isNamed(t, "sync", "Once"), isNamed(t, "sync", "RWMutex"):
		return []Leaf{{Name: name, Sort: sBool, Base: sBool, Kind: lkGhost, T: t}}
	}
	switch u := t.Underlying().(type) {
	case *types.Basic:
		switch {
		case u.Info()&types.IsBoolean != 0:
			return []Leaf{{Name: name, Sort: sBool, Base: sBool, Kind: lkBool, T: t}}
		case u.Info()&types.IsInteger != 0:
			return []Leaf{{Name: name, Sort: sInt, Base: sInt, Kind: lkInt, T: t}}
		case u.Info()&types.IsString != 0:
			return []Leaf{{Name: name, Sort: sStr, Base: sStr, Kind: lkStr, T: t}}
		case u.Kind() == types.UnsafePointer:
			return []Leaf{{Name: name, Sort: sInt, Base: sInt, Kind: lkRef, T: t}}
		case u.Info()&types.IsFloat != 0:
			return []Leaf{{Name: name, Sort: "Real", Base: "Real", Kind: lkReal, T: t}}
		case u.Kind() == types.UntypedNil:
			return []Leaf{{Name: name, Sort: sInt, Base: sInt, Kind: lkRef, T: t}}
		}
		panic(unsupported("basic type " + u.String()))
	case *types.Pointer:
		return []Leaf{{Name: name, Sort: sInt, Base: sInt, Kind: lkRef, T: t, PtrTo: u.Elem()}}
	case *types.Map, *types.Chan, *types.Signature:
		return []Leaf{{Name: name, Sort: sInt, Base: sInt, Kind: lkRef, T: t}}
	case *types.Slice:
		return []Leaf{
			{Name: name + ".ref", Sort: sInt, Base: sInt, Kind: lkSliceRef, T: t},
			{Name: name + ".off", Sort: sInt, Base: sInt, Kind: lkSliceOff, T: t},
			{Name: name + ".len", Sort: sInt, Base: sInt, Kind: lkSliceLen, T: t},
			{Name: name + ".cap", Sort: sInt, Base: sInt, Kind: lkSliceCap, T: t},
		}
	case *types.Interface:
		return []Leaf{
			{Name: name + ".tid", Sort: sInt, Base: sInt, Kind: lkTid, T: t},
			{Name: name + ".pay", Sort: sInt, Base: sInt, Kind: lkPay, T: t},
		}
	case *types.Struct:
		var out []Leaf
		for i := 0; i < u.NumFields(); i++ {
			f := u.Field(i)
			out = append(out, flatten1(f.Type(), name+"."+f.Name())...)
		}
		return out
	case *types.Array:
		inner := flatten1(u.Elem(), name+"[]")
		out := make([]Leaf, len(inner))
		for i, l := range inner {
			l.Sort = sArr(sInt, l.Sort)
			l.Dims = append([]int64{u.Len()}, l.Dims...)
			out[i] = l
		}
		return out
	case *types.Tuple:
		var out []Leaf
		for i := 0; i < u.Len(); i++ {
			out = append(out, flatten1(u.At(i).Type(), fmt.Sprintf("%s#%d", name, i))...)
		}
		return out
	}
	panic(unsupported("type " + t.String()))
}

// fieldLeafRange returns the leaf offset and count of struct field i.
func fieldLeafRange(st *types.Struct, i int) (int, int) {
	off := 0
	for j := 0; j < i; j++ {
		off += len(flatten(st.Field(j).Type()))
	}
	return off, len(flatten(st.Field(i).Type()))
}

type unsupportedErr struct{ msg string }

func (u unsupportedErr) Error() string      { return "outside subset: " + u.msg }
func unsupported(msg string) unsupportedErr { return unsupportedErr{msg} }

// ---------------------------------------------------------------------------

type pathStep struct {
	Field int    // struct field index, or -1 for an array index step
	Index string // SMT term for an array index step
}

type lvKind int

const (
	lvCell lvKind = iota // non-escaping local variable
	lvHeap               // root object in component H|type
	lvElem               // element of a backing array in component E|elemtype
	lvView               // typed view of bytes in a byte backing array (unsafe)
	lvArr                // root array object stored as one row of component E|elemtype
)

type cellKey struct {
	frame int
	a     *ssa.Alloc
}

// LValue is an engine-level pointer.
type LValue struct {
	Kind  lvKind
	Cell  cellKey
	Root  types.Type // type of the root container (cell type, object type or element type)
	Ref   string     // lvHeap / lvElem / lvView: object reference
	Idx   string     // lvElem: absolute element index; lvView: byte offset
	Path  []pathStep
	T     types.Type // type of the addressed location
	ViewT types.Type // lvView: type the bytes are viewed as
	Lim   string     // lvElem from a slice: absolute end index (off+len)
	Src   *LValue    // lvView: the location that is being viewed
}

func (lv *LValue) key() string {
	var b strings.Builder
	fmt.Fprintf(&b, "%d|%d|%p|%s|%s|%s", lv.Kind, lv.Cell.frame, lv.Cell.a, typeKeySafe(lv.Root), lv.Ref, lv.Idx)
	for _, p := range lv.Path {
		fmt.Fprintf(&b, "/%d:%s", p.Field, p.Index)
	}
	return b.String()
}

func typeKeySafe(t types.Type) string {
	if t == nil {
		return ""
	}
	return typeKey(t)
}

// Closure is a function value known to the engine.
type Closure struct {
	Fn       *ssa.Function
	Bindings []Val
}

type Val struct {
	T   types.Type
	L   []string // leaf terms (len == len(flatten(T))) unless LV/Fn/Tup/Iter is set
	LV  *LValue  // pointer represented as lvalue
	Fn  *Closure
	Tup []Val
	It  *iterState
	GS  string  // sort of a ghost / mathematical value (T == nil)
	arr []string // sequence parameter of a recursive spec function: element arrays (one per leaf)
	lit *string // contract string literal
}

type iterState struct {
	kind    int // 0 map, 1 string
	coll    Val
	posCell cellKey // hidden cell holding the iterator's ghost state
	id      int
}

func scalar(t types.Type, term string) Val { return Val{T: t, L: []string{term}} }

func (v Val) term() string {
	if len(v.L) != 1 {
		panic(fmt.Sprintf("term(): value of type %v has %d leaves", v.T, len(v.L)))
	}
	return v.L[0]
}

// integer type info
func intInfo(t types.Type) (bits uint, signed bool, ok bool) {
	b, isB := t.Underlying().(*types.Basic)
	if !isB || b.Info()&types.IsInteger == 0 {
		return 0, false, false
	}
	switch b.Kind() {
	case types.Int8:
		return 8, true, true
	case types.Int16:
		return 16, true, true
	case types.Int32:
		return 32, true, true
	case types.Int64, types.Int, types.UntypedInt, types.UntypedRune:
		return 64, true, true
	case types.Uint8:
		return 8, false, true
	case types.Uint16:
		return 16, false, true
	case types.Uint32:
		return 32, false, true
	case types.Uint64, types.Uint, types.Uintptr:
		return 64, false, true
	}
	return 0, false, false
}

func intRange(t types.Type) (lo, hi string, ok bool) {
	bits, signed, ok := intInfo(t)
	if !ok {
		return "", "", false
	}
	if signed {
		return numBig(new(big.Int).Neg(pow2(bits - 1))), numBig(new(big.Int).Sub(pow2(bits-1), one)), true
	}
	return "0", numBig(new(big.Int).Sub(pow2(bits), one)), true
}

// leafRangeAssumption returns the well-formedness fact of a scalar leaf term.
func leafRangeAssumption(l Leaf, term string) string {
	if len(l.Dims) > 0 {
		return "true" // array-valued leaves: ranges asserted at select time
	}
	return scalarRange(l, term)
}

func scalarRange(l Leaf, term string) string {
	switch l.Kind {
	case lkInt:
		lo, hi, ok := intRange(l.T)
		if !ok {
			return "true"
		}
		return mkAnd(mkCmp("<=", lo, term), mkCmp("<=", term, hi))
	case lkRef, lkSliceRef, lkTid, lkPay:
		if l.Kind == lkPay {
			return "true"
		}
		return mkCmp(">=", term, "0")
	case lkSliceOff, lkSliceLen, lkSliceCap:
		return mkCmp(">=", term, "0")
	}
	return "true"
}

// zeroLeaf returns the zero value term of a leaf.
func zeroLeaf(l Leaf) string {
	var z string
	switch l.Base {
	case sInt:
		z = "0"
	case sBool:
		z = "false"
	case sStr:
		z = "STR_EMPTY"
	case "Real":
		z = "0.0"
	}
	// wrap arrays: ((as const (Array Int X)) z)
	srt := l.Base
	for i := range l.Dims {
		srt = sArr(sInt, srt)
		if i == 0 && l.Base == sStr {
			z = "STR_EMPTY_ARR"
			continue
		}
		z = "((as const " + srt + ") " + z + ")"
	}
	return z
}

// typeKey0: named struct types are identified by name, everything else by structure.
func typeKey0(t types.Type) string {
	t = types.Unalias(t)
	switch u := t.(type) {
	case *types.Named:
		if _, ok := u.Underlying().(*types.Struct); ok {
			p := ""
			if u.Obj().Pkg() != nil {
				p = u.Obj().Pkg().Name() + "."
			}
			s := p + u.Obj().Name()
			if ta := u.TypeArgs(); ta != nil && ta.Len() > 0 {
				s += "[" + types.TypeString(ta.At(0), nil) + "]"
			}
			return s
		}
		return typeKey0(u.Underlying())
	case *types.Pointer:
		return "*" + typeKey0(u.Elem())
	case *types.Slice:
		return "[]" + typeKey0(u.Elem())
	case *types.Array:
		return fmt.Sprintf("[%d]%s", u.Len(), typeKey0(u.Elem()))
	case *types.Map:
		return "map[" + typeKey0(u.Key()) + "]" + typeKey0(u.Elem())
	case *types.Struct:
		var b strings.Builder
		b.WriteString("struct{")
		for i := 0; i < u.NumFields(); i++ {
			b.WriteString(u.Field(i).Name() + " " + typeKey0(u.Field(i).Type()) + ";")
		}
		b.WriteString("}")
		return b.String()
	}
	return types.TypeString(t.Underlying(), nil)
}
