package main

// Solver portfolio: z3-new (5.1.0), cvc5 1.0, z3 4.8.12.

import (
	"bytes"
	"context"
	"fmt"
	"os"
	"os/exec"
	"path/filepath"
	"strings"
	"sync"
	"time"
)

type SolveResult struct {
	Status  string // unsat | sat | unknown | timeout | error
	Solver  string
	Time    float64
	Output  string
	Answers map[string]string // per solver status (thorough tier)
}

type solverSpec struct {
	name string
	argv func(file string, timeoutS int, seed int) []string
}

var solvers = []solverSpec{
	{"z3-new", func(f string, t, seed int) []string {
		return []string{"z3-new", fmt.Sprintf("-T:%d", t), fmt.Sprintf("smt.random_seed=%d", seed), f}
	}},
	{"cvc5", func(f string, t, seed int) []string {
		return []string{"cvc5", "-q", "--lang=smt2", fmt.Sprintf("--tlimit=%d", t*1000), fmt.Sprintf("--seed=%d", seed), f}
	}},
	{"cvc5-enum", func(f string, t, seed int) []string {
		return []string{"cvc5", "-q", "--lang=smt2", "--enum-inst", fmt.Sprintf("--tlimit=%d", t*1000), fmt.Sprintf("--seed=%d", seed), f}
	}},
	{"z3", func(f string, t, seed int) []string {
		return []string{"/usr/bin/z3", fmt.Sprintf("-T:%d", t), fmt.Sprintf("smt.random_seed=%d", seed), f}
	}},
}

var (
	scratchDir  string
	scratchOnce sync.Once
	keepScratch bool
	solverSeed  int
)

func scratch() string {
	scratchOnce.Do(func() {
		d, err := os.MkdirTemp("", "govc-")
		if err != nil {
			panic(err)
		}
		scratchDir = d
	})
	return scratchDir
}

func cleanupScratch() {
	if scratchDir != "" && !keepScratch {
		os.RemoveAll(scratchDir)
	}
}

func runSolver(sp solverSpec, file string, timeoutS int) (string, string, float64) {
	return runSolverSeed(sp, file, timeoutS, solverSeed)
}

func runSolverSeed(sp solverSpec, file string, timeoutS int, seed int) (string, string, float64) {
	argv := sp.argv(file, timeoutS, seed)
	ctx, cancel := context.WithTimeout(context.Background(), time.Duration(timeoutS+2)*time.Second)
	defer cancel()
	cmd := exec.CommandContext(ctx, argv[0], argv[1:]...)
	var out bytes.Buffer
	cmd.Stdout = &out
	cmd.Stderr = &out
	t0 := time.Now()
	_ = cmd.Run()
	dt := time.Since(t0).Seconds()
	o := out.String()
	first := strings.TrimSpace(strings.SplitN(o, "\n", 2)[0])
	switch {
	case first == "unsat" || first == "sat" || first == "unknown":
		return first, o, dt
	case strings.Contains(o, "timeout") || ctx.Err() != nil:
		return "timeout", o, dt
	case first == "":
		return "timeout", o, dt
	}
	return "error", o, dt
}

var queryCounter int
var queryMu sync.Mutex

func writeQuery(name string, lines []string) string {
	queryMu.Lock()
	queryCounter++
	n := queryCounter
	queryMu.Unlock()
	f := filepath.Join(scratch(), fmt.Sprintf("q%05d_%s.smt2", n, sanitize(trunc(name, 60))))
	var b bytes.Buffer
	for _, l := range lines {
		b.WriteString(l)
		b.WriteByte('\n')
	}
	if err := os.WriteFile(f, b.Bytes(), 0o644); err != nil {
		panic(err)
	}
	return f
}

// solve decides one query. quick: z3-new first (short), then the portfolio.
func solve(name string, lines []string, timeoutS int, cross bool) SolveResult {
	file := writeQuery(name, lines)
	if !keepScratch {
		defer os.Remove(file)
	}
	res := SolveResult{Answers: map[string]string{}}
	if !cross {
		st, out, dt := runSolver(solvers[0], file, min(3, timeoutS))
		res.Answers[solvers[0].name] = st
		if st == "unsat" || st == "sat" {
			return SolveResult{Status: st, Solver: solvers[0].name, Time: dt, Output: out, Answers: res.Answers}
		}
	}
	type r struct {
		sp  solverSpec
		st  string
		out string
		dt  float64
	}
	ch := make(chan r, len(solvers))
	for _, sp := range solvers {
		go func(sp solverSpec) {
			st, out, dt := runSolver(sp, file, timeoutS)
			ch <- r{sp, st, out, dt}
		}(sp)
	}
	best := SolveResult{Status: "unknown"}
	var total float64
	nerr := 0
	for range solvers {
		x := <-ch
		res.Answers[x.sp.name] = x.st
		total += x.dt
		switch x.st {
		case "unsat":
			if best.Status != "unsat" && best.Status != "sat" {
				best = SolveResult{Status: "unsat", Solver: x.sp.name, Time: x.dt, Output: x.out}
			}
		case "sat":
			// a sat answer wins over everything (reported as failure / disagreement)
			best = SolveResult{Status: "sat", Solver: x.sp.name, Time: x.dt, Output: x.out}
		case "timeout":
			if best.Status == "unknown" {
				best = SolveResult{Status: "timeout", Solver: x.sp.name, Time: x.dt, Output: x.out}
			}
		case "error":
			nerr++
			if best.Status == "unknown" && best.Output == "" {
				best.Output = x.sp.name + ": " + trunc(x.out, 400)
			}
		}
		if !cross && (best.Status == "unsat" || best.Status == "sat") {
			break
		}
	}
	best.Answers = res.Answers
	if nerr == len(solvers) {
		best.Status = "error"
	}
	if cross {
		hasSat, hasUnsat := false, false
		for _, v := range res.Answers {
			if v == "sat" {
				hasSat = true
			}
			if v == "unsat" {
				hasUnsat = true
			}
		}
		if hasSat && hasUnsat {
			best.Status = "sat"
			best.Output = "solver disagreement: " + fmt.Sprint(res.Answers)
		}
	}
	return best
}

func min(a, b int) int {
	if a < b {
		return a
	}
	return b
}
