package main

// The recognised unsafe views: a struct seen as a byte array and bytes seen as
// a struct / integer (little endian, gc/amd64 layout), and []byte seen as string.

import (
	"fmt"
	"go/token"
	"go/types"
	"math/big"
)

type viewInfo struct {
	obj *LValue // the object the byte array is a view of
	t   types.Type
	n   int64
}

type scalarSlot struct {
	off    int64 // byte offset inside the viewed type (for array elements: offset of element 0)
	width  int64
	signed bool
	leaf   int   // leaf index in flatten(t)
	count  int64 // >0: array of count elements with the given stride
	stride int64
	isBool bool
}

// layoutSlots lists the scalar slots of t in flatten order.
func layoutSlots(t types.Type) []scalarSlot {
	var out []scalarSlot
	leaf := 0
	var walk func(t types.Type, off int64, count, stride int64)
	walk = func(t types.Type, off int64, count, stride int64) {
		switch u := t.Underlying().(type) {
		case *types.Struct:
			var fields []*types.Var
			for i := 0; i < u.NumFields(); i++ {
				fields = append(fields, u.Field(i))
			}
			offs := sizes.Offsetsof(fields)
			for i, f := range fields {
				walk(f.Type(), off+offs[i], count, stride)
			}
		case *types.Array:
			if count > 0 {
				panic(unsupported("nested arrays in an unsafe view"))
			}
			walk(u.Elem(), off, u.Len(), sizes.Sizeof(u.Elem()))
		case *types.Basic:
			bits, signed, ok := intInfo(t)
			if ok {
				out = append(out, scalarSlot{off: off, width: int64(bits / 8), signed: signed, leaf: leaf, count: count, stride: stride})
				leaf++
				return
			}
			if u.Info()&types.IsBoolean != 0 {
				out = append(out, scalarSlot{off: off, width: 1, leaf: leaf, count: count, stride: stride, isBool: true})
				leaf++
				return
			}
			panic(unsupported("unsafe view of " + t.String()))
		default:
			panic(unsupported("unsafe view of " + t.String()))
		}
	}
	walk(t, 0, 0, 0)
	return out
}

func byteOf(v string, j int64) string {
	// (v div 256^j) mod 256 for a non-negative v
	d := new(big.Int).Exp(big.NewInt(256), big.NewInt(j), nil)
	return mkMod(mkDiv(v, numBig(d)), "256")
}

func (ex *Exec) unsignedOfWidth(v string, width int64, signed bool) string {
	if !signed {
		return v
	}
	return mkIte(mkCmp("<", v, "0"), mkAdd(v, numBig(pow2(uint(width*8)))), v)
}

func (ex *Exec) signedOfWidth(v string, width int64, signed bool) string {
	if !signed {
		return v
	}
	return mkIte(mkCmp(">=", v, numBig(pow2(uint(width*8-1)))), mkSub(v, numBig(pow2(uint(width*8)))), v)
}

// composeLE builds the integer stored little-endian in arr at byte offset off.
func composeLE(arr, off string, width int64) string {
	t := mkSelect(arr, off)
	for j := int64(1); j < width; j++ {
		d := new(big.Int).Exp(big.NewInt(256), big.NewInt(j), nil)
		t = mkAdd(t, mkMul(numBig(d), mkSelect(arr, mkAdd(off, num(j)))))
	}
	return t
}

// encodeInto asserts that byte array arr, from byte offset base, holds the
// little-endian image of value v of type t.
func (ex *Exec) encodeInto(arr, base string, t types.Type, v Val) {
	for _, s := range layoutSlots(t) {
		if s.count == 0 {
			val := v.L[s.leaf]
			if s.isBool {
				val = mkIte(val, "1", "0")
			}
			u := ex.sc.define("enc", sInt, ex.unsignedOfWidth(val, s.width, s.signed))
			for j := int64(0); j < s.width; j++ {
				ex.sc.assert(mkEq(mkSelect(arr, mkAdd(base, num(s.off+j))), byteOf(u, j)))
			}
			// recomposition identity (lemma le_recompose_<w> in lemmas/bytes.smt2): the
			// little-endian bytes of u put together again give u
			ex.sc.assert(mkEq(composeLE(arr, mkAdd(base, num(s.off)), s.width), u))
			continue
		}
		// array slot: element i occupies bytes off+stride*i .. +width. One fact per
		// element, triggered by the element itself and by its first byte: the bytes
		// are the little-endian digits of the (range-respecting) element, and put
		// together again they give the element (lemma le_recompose_<w>).
		src := ex.sc.define("viewsrc", sArr(sInt, sInt), v.L[s.leaf])
		el := ex.unsignedOfWidth(mkSelect(src, "i"), s.width, s.signed)
		first := mkAdd(base, mkAdd(num(s.off), mkMul(num(s.stride), "i")))
		var cs []string
		if !s.signed {
			cs = append(cs, mkCmp("<=", "0", mkSelect(src, "i")), mkCmp("<", mkSelect(src, "i"), numBig(pow2(uint(8*s.width)))))
		}
		for j := int64(0); j < s.width; j++ {
			idx := mkAdd(base, mkAdd(num(s.off+j), mkMul(num(s.stride), "i")))
			cs = append(cs, mkEq(mkSelect(arr, idx), byteOf(el, j)))
		}
		cs = append(cs, mkEq(composeLE(arr, first, s.width), el))
		ex.sc.assert(fmt.Sprintf("(forall ((i Int)) (! (=> (and (<= 0 i) (< i %d)) %s) :pattern ((select %s i)) :pattern ((select %s %s))))", s.count, mkAnd(cs...), src, arr, first))
	}
}

// decodeFrom returns the value of type t stored in arr from byte offset base.
func (ex *Exec) decodeFrom(arr, base string, t types.Type) Val {
	leaves := flatten(t)
	out := Val{T: t, L: make([]string, len(leaves))}
	for _, s := range layoutSlots(t) {
		if s.count == 0 {
			for j := int64(0); j < s.width; j++ {
				b := mkSelect(arr, mkAdd(mkAdd(base, num(s.off)), num(j)))
				ex.sc.assert(mkAnd(mkCmp("<=", "0", b), mkCmp("<", b, "256"))) // elements of a byte array are bytes
			}
			raw := ex.sc.define("dec", sInt, composeLE(arr, mkAdd(base, num(s.off)), s.width))
			if s.isBool {
				out.L[s.leaf] = mkNot(mkEq(raw, "0"))
				continue
			}
			out.L[s.leaf] = ex.sc.define("decv", sInt, ex.signedOfWidth(raw, s.width, s.signed))
			ex.sc.assert(scalarRange(stripDims(leaves[s.leaf], len(leaves[s.leaf].Dims)), out.L[s.leaf]))
			continue
		}
		a := ex.sc.fresh("decarr", leaves[s.leaf].Sort)
		el := ex.signedOfWidth(composeLE(arr, mkAdd(base, mkAdd(num(s.off), mkMul(num(s.stride), "i"))), s.width), s.width, s.signed)
		ex.sc.assert(fmt.Sprintf("(forall ((i Int)) (! (=> (and (<= 0 i) (< i %d)) (= (select %s i) %s)) :pattern ((select %s i))))", s.count, a, el, a))
		out.L[s.leaf] = a
	}
	return out
}

// viewPointer handles convert *T <- unsafe.Pointer.
func (ex *Exec) viewPointer(fr *Frame, st *State, reach string, v Val, pt *types.Pointer, pos token.Pos) Val {
	src := v.LV
	if src == nil {
		panic(unsupported("unsafe.Pointer of unknown origin"))
	}
	target := pt.Elem()
	// []byte seen as string
	if isStringType(target) {
		if sl, ok := src.T.Underlying().(*types.Slice); ok {
			if b, ok := sl.Elem().Underlying().(*types.Basic); ok && b.Kind() == types.Uint8 {
				return Val{T: pt, LV: &LValue{Kind: lvView, Root: src.T, T: target, ViewT: target, Ref: "bytes-as-string", Src: src}}
			}
		}
		panic(unsupported("unsafe view as string of " + src.T.String()))
	}
	// bytes seen as T
	if b, ok := src.T.Underlying().(*types.Basic); ok && b.Kind() == types.Uint8 && src.Kind == lvElem && len(src.Path) == 0 {
		size := sizes.Sizeof(target)
		if src.Lim != "" {
			ex.oblige(fr, "bounds", nil, pos, fmt.Sprintf("unsafe view of %d bytes stays inside the slice", size), reach,
				mkCmp("<=", mkAdd(src.Idx, num(size)), src.Lim))
		} else {
			panic(unsupported("unsafe view of bytes without a known limit"))
		}
		_ = layoutSlots(target)
		return Val{T: pt, LV: &LValue{Kind: lvView, Root: src.T, Ref: src.Ref, Idx: src.Idx, T: target, ViewT: target}}
	}
	// object seen as [N]byte
	if arr, ok := target.Underlying().(*types.Array); ok {
		if b, ok := arr.Elem().Underlying().(*types.Basic); ok && b.Kind() == types.Uint8 {
			if len(src.Path) != 0 {
				panic(unsupported("byte view of an interior location"))
			}
			if arr.Len() > sizes.Sizeof(src.T) {
				ex.oblige(fr, "bounds", nil, pos, "byte view larger than the object", reach, "false")
			}
			_ = layoutSlotsPrefix(src.T, arr.Len())
			return Val{T: pt, LV: &LValue{Kind: lvView, Root: src.T, T: target, ViewT: target, Ref: "object-as-bytes", Src: src}}
		}
	}
	panic(unsupported(fmt.Sprintf("unsafe view of %v as %v", src.T, target)))
}

// layoutSlotsPrefix: the slots of t that lie inside the first n bytes (the
// rule header view covers only the header part of auditRuleData).
func layoutSlotsPrefix(t types.Type, n int64) types.Type {
	// The viewed prefix must coincide with a prefix of the fields.
	if sizes.Sizeof(t) == n {
		return t
	}
	st, ok := t.Underlying().(*types.Struct)
	if !ok {
		panic(unsupported("prefix view of non-struct"))
	}
	var fields []*types.Var
	for i := 0; i < st.NumFields(); i++ {
		fields = append(fields, st.Field(i))
	}
	offs := sizes.Offsetsof(fields)
	for i := range fields {
		end := offs[i] + sizes.Sizeof(fields[i].Type())
		if end == n {
			// prefix of fields 0..i
			return types.NewStruct(fields[:i+1], nil)
		}
	}
	panic(unsupported(fmt.Sprintf("byte view of %d bytes does not end at a field boundary of %v", n, t)))
}

func (ex *Exec) loadView(st *State, lv *LValue) Val {
	if lv.Ref == "bytes-as-string" {
		b := ex.load(st, lv.Src)
		return scalar(lv.ViewT, ex.bytesToString(st, b))
	}
	bt := types.Typ[types.Uint8]
	c := ex.comp(st, compE(bt, 0), sArr(sInt, sArr(sInt, sInt)))
	arr := ex.sc.define("vbytes", sArr(sInt, sInt), mkSelect(c, lv.Ref))
	return ex.decodeFrom(arr, lv.Idx, lv.ViewT)
}

func (ex *Exec) storeView(st *State, lv *LValue, v Val) {
	bt := types.Typ[types.Uint8]
	name := compE(bt, 0)
	srt := sArr(sInt, sArr(sInt, sInt))
	c := ex.comp(st, name, srt)
	arr := mkSelect(c, lv.Ref)
	for _, s := range layoutSlots(lv.ViewT) {
		if s.count != 0 {
			panic(unsupported("store of arrays through an unsafe view"))
		}
		val := v.L[s.leaf]
		u := ex.sc.define("enc", sInt, ex.unsignedOfWidth(val, s.width, s.signed))
		for j := int64(0); j < s.width; j++ {
			arr = mkStore(arr, mkAdd(lv.Idx, num(s.off+j)), byteOf(u, j))
		}
	}
	ex.setComp(st, name, srt, mkStore(c, lv.Ref, arr))
	ex.noteWrite(name, lv.Ref)
}

func (ex *Exec) execSliceView(st *State, ptr Val, lo, hi, max string, t types.Type) Val {
	lv := ptr.LV
	if lv.Ref != "object-as-bytes" {
		panic(unsupported("slice of a non-object view"))
	}
	obj := lv.Src
	arr := lv.ViewT.Underlying().(*types.Array)
	vt := layoutSlotsPrefix(obj.T, arr.Len())
	cur := ex.load(st, obj)
	// restrict to the prefix leaves
	pv := Val{T: vt, L: cur.L[:len(flatten(vt))]}
	bt := types.Typ[types.Uint8]
	name := compE(bt, 0)
	srt := sArr(sInt, sArr(sInt, sInt))
	r := ex.newRef(st, "view")
	b := ex.sc.fresh("viewbytes", sArr(sInt, sInt))
	ex.sc.assert(fmt.Sprintf("(forall ((i Int)) (! (and (<= 0 (select %s i)) (< (select %s i) 256)) :pattern ((select %s i))))", b, b, b))
	ex.encodeInto(b, "0", vt, pv)
	c := ex.comp(st, name, srt)
	ex.setComp(st, name, srt, mkStore(c, r, b))
	ex.noteWrite(name, r)
	ex.views[r] = &viewInfo{obj: obj, t: vt, n: arr.Len()}
	return Val{T: t, L: []string{r, lo, ex.sc.define("len", sInt, mkSub(hi, lo)), ex.sc.define("cap", sInt, mkSub(max, lo))}}
}

// copyIntoView: copy(view, src) — update the bytes, then decode them back into the object.
func (ex *Exec) copyIntoView(fr *Frame, st *State, reach string, v *viewInfo, dst, src Val, n string, pos token.Pos) {
	bt := types.Typ[types.Uint8]
	name := compE(bt, 0)
	srt := sArr(sInt, sArr(sInt, sInt))
	c := ex.comp(st, name, srt)
	oldArr := ex.sc.define("darr", sArr(sInt, sInt), mkSelect(c, dst.L[0]))
	newArr := ex.sc.fresh("carr", sArr(sInt, sInt))
	var srcT string
	if isStringType(src.T) {
		srcT = app("sat", src.term(), mkSub("i", dst.L[1]))
	} else {
		sarr := ex.sc.define("sarr", sArr(sInt, sInt), mkSelect(c, src.L[0]))
		srcT = mkSelect(sarr, mkAdd(src.L[1], mkSub("i", dst.L[1])))
		ex.sc.assert(fmt.Sprintf("(forall ((i Int)) (! (and (<= 0 (select %s i)) (< (select %s i) 256)) :pattern ((select %s i))))", sarr, sarr, sarr))
	}
	ex.sc.assert(fmt.Sprintf("(forall ((i Int)) (! (= (select %s i) (ite (and (<= %s i) (< i (+ %s %s))) %s (select %s i))) :pattern ((select %s i))))",
		newArr, dst.L[1], dst.L[1], n, srcT, oldArr, newArr))
	ex.setComp(st, name, srt, mkStore(c, dst.L[0], newArr))
	ex.noteWrite(name, dst.L[0])
	// write back
	dec := ex.decodeFrom(newArr, "0", v.t)
	cur := ex.load(st, v.obj)
	nl := append([]string(nil), cur.L...)
	copy(nl, dec.L)
	ex.checkFrame(fr, st, reach, v.obj, pos)
	ex.store(st, v.obj, Val{T: v.obj.T, L: nl})
}

// le: little-endian integer of width n at offset off of byte slice b.
func (ex *Exec) le(st *State, b Val, off string, n int64) string {
	bt := types.Typ[types.Uint8]
	c := ex.comp(st, compE(bt, 0), sArr(sInt, sArr(sInt, sInt)))
	return composeLE(mkSelect(c, b.L[0]), mkAdd(b.L[1], off), n)
}
