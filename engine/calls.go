package main

// Calls: builtins, inlining, modular calls against contracts, environment
// calls, assumed contracts for code outside the module.

import (
	"fmt"
	"go/token"
	"go/types"
	"regexp"
	"strings"

	"golang.org/x/tools/go/ssa"
)

func (ex *Exec) execCall(fr *Frame, st *State, reach string, c *ssa.CallCommon, instr ssa.Instruction, pos token.Pos) Val {
	args := make([]Val, len(c.Args))
	for i, a := range c.Args {
		args[i] = ex.get(fr, a)
	}
	fnVal := ex.get(fr, c.Value)
	return ex.execCallWith(fr, st, reach, c, fnVal, args, instr, pos)
}

func resultType(c *ssa.CallCommon) types.Type {
	return c.Signature().Results()
}

// packResults wraps a list of result values as a call result value.
func packResults(sig *types.Signature, vals []Val) Val {
	switch sig.Results().Len() {
	case 0:
		return Val{T: sig.Results()}
	case 1:
		return vals[0]
	}
	return Val{T: sig.Results(), Tup: vals}
}

func (ex *Exec) freshResults(st *State, sig *types.Signature, hint string) []Val {
	var out []Val
	for i := 0; i < sig.Results().Len(); i++ {
		out = append(out, ex.freshVal(st, sig.Results().At(i).Type(), fmt.Sprintf("%s_r%d", hint, i)))
	}
	return out
}

func (ex *Exec) execCallWith(fr *Frame, st *State, reach string, c *ssa.CallCommon, fnVal Val, args []Val, instr ssa.Instruction, pos token.Pos) Val {
	sig := c.Signature()
	if c.IsInvoke() {
		return ex.invokeCall(fr, st, reach, c, fnVal, args, pos)
	}
	if b, ok := c.Value.(*ssa.Builtin); ok {
		return ex.execBuiltin(fr, st, reach, b, args, instr, pos)
	}
	var callee *ssa.Function
	var bindings []Val
	if f, ok := c.Value.(*ssa.Function); ok {
		callee = f
	} else if fnVal.Fn != nil {
		callee = fnVal.Fn.Fn
		bindings = fnVal.Fn.Bindings
	} else if len(fnVal.L) == 1 {
		if cl, ok := ex.fnBack[fnVal.L[0]]; ok {
			callee = cl.Fn
			bindings = cl.Bindings
		}
	}
	if callee == nil {
		// call of an unknown function value: environment call
		ex.oblige(fr, "nil", nil, pos, "call of nil function value", reach, mkNot(mkEq(ex.lower(fnVal).term(), "0")))
		fname := "func"
		if n, ok := types.Unalias(c.Value.Type()).(*types.Named); ok {
			fname = n.Obj().Name()
		}
		return ex.envCall(fr, st, reach, "funcvalue."+fname, sig, args, pos)
	}
	return ex.callFunction(fr, st, reach, callee, bindings, args, sig, pos)
}

func (ex *Exec) inModule(f *ssa.Function) bool { return ex.eng.isModuleFn(f) }

func (ex *Exec) callFunction(fr *Frame, st *State, reach string, callee *ssa.Function, bindings, args []Val, sig *types.Signature, pos token.Pos) Val {
	key := shortFn(callee)
	// engine intrinsics and assumed contracts for code outside the module
	if h, ok := intrinsics[callee.String()]; ok {
		ex.assumedUsed[callee.String()] = true
		return h(ex, fr, st, reach, args, sig, pos)
	}
	if !ex.inModule(callee) {
		if strings.HasSuffix(callee.Name(), "$bound") || strings.HasSuffix(callee.Name(), "$thunk") {
			panic(unsupported("method value " + callee.String()))
		}
		panic(unsupported("no assumed contract for " + callee.String()))
	}
	if ctr := ex.eng.specs.contractFor(key); ctr != nil && ctr.isModular() && (ctr.Assume || !ex.forceInline(key)) {
		ex.modularFns[key] = true
		return ex.modularCall(fr, st, reach, callee, ctr, args, sig, pos)
	}
	// inline
	if len(callee.Blocks) == 0 {
		panic(unsupported("no body for " + callee.String()))
	}
	for f := fr; f != nil; f = f.parent {
		if f.fn == callee {
			panic(unsupported("recursive call of " + callee.String() + " needs a contract"))
		}
	}
	if fr.depth+1 > ex.depthLimit {
		panic(unsupported("inlining depth exceeded at " + callee.String()))
	}
	ex.inlinedFns[key] = true
	nf := ex.newFrame(callee, fr)
	nf.params = args
	nf.bind = bindings
	nf.entry = st
	res := ex.execFunc(nf, st, reach)
	// continue in the caller with the callee's exit state
	*st = *res.st
	// reachability after the call: the callee may have diverged into panics
	// (obligations) only; normal return condition is res.reach. We keep the
	// caller's reach (obligations inside were assumed) but record equivalence.
	ex.sc.assert(mkImp(reach, res.reach))
	return packResults(sig, res.vals)
}

func (ex *Exec) forceInline(key string) bool { return ex.eng.inlineOverride[key] }

// ---------------------------------------------------------------------------

func (ex *Exec) invokeCall(fr *Frame, st *State, reach string, c *ssa.CallCommon, recv Val, args []Val, pos token.Pos) Val {
	sig := c.Signature()
	it := c.Value.Type()
	name := ifaceName(it) + "." + c.Method.Name()
	ex.oblige(fr, "nil", nil, pos, "method call on nil interface "+name, reach, mkNot(mkEq(recv.L[0], "0")))
	if h, ok := ifaceIntrinsics[name]; ok {
		return h(ex, fr, st, reach, recv, args, sig, pos)
	}
	// dynamic dispatch to module types when the interface is a module type with
	// known implementations is not attempted: declared environment interfaces only.
	if env := ex.eng.specs.envFor(name); env != nil {
		return ex.envCallSpec(fr, st, reach, name, env, recv, sig, args, pos)
	}
	panic(unsupported("interface method call " + name + " (not a declared environment interface)"))
}

func ifaceName(t types.Type) string {
	if n, ok := types.Unalias(t).(*types.Named); ok {
		p := ""
		if n.Obj().Pkg() != nil {
			p = n.Obj().Pkg().Name() + "."
		}
		return p + n.Obj().Name()
	}
	return types.TypeString(t, nil)
}

// envCall: a call that leaves the verified code; results are arbitrary.
func (ex *Exec) envCall(fr *Frame, st *State, reach, name string, sig *types.Signature, args []Val, pos token.Pos) Val {
	ex.assumedUsed["env:"+name] = true
	ex.lockFreeAtEnv(fr, st, reach, name, pos)
	entry := ex.logEnv(st, reach, name, args)
	res := ex.freshResults(st, sig, sanitize(name))
	ex.logEnvResults(st, entry, res)
	return packResults(sig, res)
}

// ---------------------------------------------------------------------------
// builtins

func (ex *Exec) execBuiltin(fr *Frame, st *State, reach string, b *ssa.Builtin, args []Val, instr ssa.Instruction, pos token.Pos) Val {
	intT := types.Typ[types.Int]
	switch b.Name() {
	case "len":
		a := args[0]
		switch u := a.T.Underlying().(type) {
		case *types.Basic:
			return scalar(intT, app("slen", a.term()))
		case *types.Slice:
			return scalar(intT, a.L[2])
		case *types.Map:
			return scalar(intT, ex.mapLen(st, a))
		case *types.Array:
			return scalar(intT, num(u.Len()))
		case *types.Pointer:
			return scalar(intT, num(u.Elem().Underlying().(*types.Array).Len()))
		}
	case "cap":
		a := args[0]
		switch u := a.T.Underlying().(type) {
		case *types.Slice:
			return scalar(intT, a.L[3])
		case *types.Array:
			return scalar(intT, num(u.Len()))
		}
	case "append":
		return ex.doAppend(fr, st, reach, args[0], args[1], pos)
	case "copy":
		return ex.doCopy(fr, st, reach, args[0], args[1], pos)
	case "delete":
		ex.checkFrameRef(fr, st, reach, args[0].term(), "map "+typeKey(args[0].T), pos)
		ex.mapDelete(st, args[0], args[1])
		return Val{}
	case "print", "println":
		return Val{}
	case "min", "max":
		if len(args) == 2 {
			if _, _, ok := intInfo(args[0].T); ok {
				op := "<="
				if b.Name() == "max" {
					op = ">="
				}
				return scalar(args[0].T, mkIte(mkCmp(op, args[0].term(), args[1].term()), args[0].term(), args[1].term()))
			}
		}
	case "ssa:wrapnilchk":
		ex.oblige(fr, "nil", nil, pos, "nil receiver", reach, mkNot(mkEq(ex.lower(args[0]).term(), "0")))
		return args[0]
	case "ssa:deferstack":
		return Val{T: b.Type()}
	}
	panic(unsupported("builtin " + b.Name()))
}

// allocOblige: allocation sizes must not be attacker-controlled numbers.
func (ex *Exec) allocOblige(fr *Frame, st *State, reach string, pos token.Pos, size string) {
	if _, ok := isNumLit(size); ok {
		return
	}
	if ex.eng.allocBound == "" {
		return
	}
	if ex.lengthDerived(size) {
		return // proportional to the size of the input, not to a number read from it
	}
	ex.oblige(fr, "alloc", nil, pos, "allocation size is not a number read from the input (bounded by 65536 elements)", reach, mkCmp("<=", size, "65536"))
}

// elemArr returns the array term holding leaf k of the backing array of a slice.
func (ex *Exec) elemArr(st *State, elem types.Type, k int, ref string) string {
	l := flatten(elem)[k]
	c := ex.comp(st, compE(elem, k), sArr(sInt, sArr(sInt, l.Sort)))
	return mkSelect(c, ref)
}

func (ex *Exec) doAppend(fr *Frame, st *State, reach string, s, t Val, pos token.Pos) Val {
	sl := s.T.Underlying().(*types.Slice)
	elem := sl.Elem()
	leaves := flatten(elem)
	sref, soff, slen, scap := s.L[0], s.L[1], s.L[2], s.L[3]
	var tlen string
	tIsString := isStringType(t.T)
	if tIsString {
		tlen = app("slen", t.term())
	} else {
		tlen = t.L[2]
	}
	if tlen == "0" {
		return s
	}
	total := ex.sc.define("alen", sInt, mkAdd(slen, tlen))
	inPlace := ex.sc.define("inplace", sBool, mkAnd(mkCmp("<=", total, scap), mkNot(mkEq(sref, "0"))))
	fresh := ex.newRefNoStore(st, "app")
	nref := ex.sc.define("aref", sInt, mkIte(inPlace, sref, fresh))
	// the fresh reference counts as allocated only in the reallocating case;
	// marking it allocated unconditionally is harmless (it is unused otherwise)
	a := ex.comp(st, compAlloc, sArr(sInt, sBool))
	ex.setComp(st, compAlloc, sArr(sInt, sBool), mkStore(a, fresh, "true"))
	ex.noteWrite(compAlloc, fresh)
	ncap := ex.sc.fresh("acap", sInt)
	ex.sc.assert(mkIte(inPlace, mkEq(ncap, scap), mkCmp(">=", ncap, total)))
	// in-place appends write into the old backing array: frame obligation
	ex.checkFrameRefCond(fr, st, reach, inPlace, sref, "append into shared backing array", pos)
	for k, l := range leaves {
		name := compE(elem, k)
		srt := sArr(sInt, sArr(sInt, l.Sort))
		c := ex.comp(st, name, srt)
		oldArr := ex.sc.define("oarr", sArr(sInt, l.Sort), mkSelect(c, sref))
		var newArr string
		if lit, ok := isNumLit(tlen); ok && lit.IsInt64() && lit.Int64() <= 4 && !tIsString {
			newArr = oldArr
			tarr := ex.elemArr(st, elem, k, t.L[0])
			for j := int64(0); j < lit.Int64(); j++ {
				newArr = mkStore(newArr, mkAdd(mkAdd(soff, slen), num(j)), mkSelect(tarr, mkAdd(t.L[1], num(j))))
			}
		} else {
			newArr = ex.sc.fresh("narr", sArr(sInt, l.Sort))
			base := ex.sc.define("abase", sInt, mkAdd(soff, slen))
			var src string
			if tIsString {
				src = app("sat", t.term(), mkSub("i", base))
			} else {
				tarr := ex.sc.define("tarr", sArr(sInt, l.Sort), ex.elemArr(st, elem, k, t.L[0]))
				src = mkSelect(tarr, mkAdd(t.L[1], mkSub("i", base)))
			}
			ex.sc.assert(fmt.Sprintf("(forall ((i Int)) (! (= (select %s i) (ite (and (<= %s i) (< i (+ %s %s))) %s (select %s i))) :pattern ((select %s i))))",
				newArr, base, base, tlen, src, oldArr, newArr))
		}
		ex.setComp(st, name, srt, mkStore(c, nref, newArr))
		ex.noteWrite(name, nref)
	}
	return Val{T: s.T, L: []string{nref, soff, total, ncap}}
}

func (ex *Exec) newRefNoStore(st *State, hint string) string {
	r := ex.sc.fresh("ref_"+hint, sInt)
	a := ex.comp(st, compAlloc, sArr(sInt, sBool))
	ex.sc.assert(mkAnd(mkCmp(">", r, "0"), mkNot(mkSelect(a, r))))
	ex.freshRefs[r] = true
	return r
}

func (ex *Exec) doCopy(fr *Frame, st *State, reach string, dst, src Val, pos token.Pos) Val {
	intT := types.Typ[types.Int]
	elem := dst.T.Underlying().(*types.Slice).Elem()
	leaves := flatten(elem)
	var srcLen string
	srcIsString := isStringType(src.T)
	if srcIsString {
		srcLen = app("slen", src.term())
	} else {
		srcLen = src.L[2]
	}
	n := ex.sc.define("ncopy", sInt, mkIte(mkCmp("<=", dst.L[2], srcLen), dst.L[2], srcLen))
	if v, ok := ex.views[dst.L[0]]; ok {
		ex.copyIntoView(fr, st, reach, v, dst, src, n, pos)
		return scalar(intT, n)
	}
	ex.checkFrameRefCond(fr, st, reach, mkCmp(">", n, "0"), dst.L[0], "copy", pos)
	for k, l := range leaves {
		name := compE(elem, k)
		srt := sArr(sInt, sArr(sInt, l.Sort))
		c := ex.comp(st, name, srt)
		oldArr := ex.sc.define("darr", sArr(sInt, l.Sort), mkSelect(c, dst.L[0]))
		newArr := ex.sc.fresh("carr", sArr(sInt, l.Sort))
		var srcT string
		if srcIsString {
			srcT = app("sat", src.term(), mkSub("i", dst.L[1]))
		} else {
			sarr := ex.sc.define("sarr", sArr(sInt, l.Sort), mkSelect(c, src.L[0]))
			srcT = mkSelect(sarr, mkAdd(src.L[1], mkSub("i", dst.L[1])))
		}
		ex.sc.assert(fmt.Sprintf("(forall ((i Int)) (! (= (select %s i) (ite (and (<= %s i) (< i (+ %s %s))) %s (select %s i))) :pattern ((select %s i))))",
			newArr, dst.L[1], dst.L[1], n, srcT, oldArr, newArr))
		ex.setComp(st, name, srt, mkStore(c, dst.L[0], newArr))
		ex.noteWrite(name, dst.L[0])
	}
	return scalar(intT, n)
}

// ---------------------------------------------------------------------------
// frame checks (modifies clauses / freshness); see contracts

func (ex *Exec) checkFrameRef(fr *Frame, st *State, reach, ref, what string, pos token.Pos) {
	ex.checkFrameRefCond(fr, st, reach, "true", ref, what, pos)
}

func (ex *Exec) checkFrameRefCond(fr *Frame, st *State, reach, cond, ref, what string, pos token.Pos) {
	top := ex.topFrame
	if top == nil || top.ctr == nil || !top.ctr.FrameFresh {
		return
	}
	// the written object must have been allocated during this call, or be
	// listed in the contract's modifies clause
	a0 := top.entryAlloc
	ok := mkNot(mkSelect(a0, ref))
	for _, m := range top.ctr.modRefs {
		ok = mkOr(ok, mkEq(ref, m))
	}
	ex.oblige(fr, "frame", top.ctr.FrameTags, pos, "write ("+what+") only to objects allocated in this call or listed in modifies", mkAnd(reach, cond), ok)
}

var lenSymRe = regexp.MustCompile(`^v\d+_(ldlen|ldcap|alen|acap|len|cap|off|ncopy|mlen|p_.*_(len|cap)|.*_len|.*_cap)$`)

// lengthDerived: the term is built from lengths / capacities of existing
// values and constants only.
func (ex *Exec) lengthDerived(term string) bool {
	t := term
	for iter := 0; iter < 30; iter++ {
		changed := false
		t = symRe.ReplaceAllStringFunc(t, func(name string) string {
			if lenSymRe.MatchString(name) {
				return name
			}
			if def, ok := ex.sc.defOf[name]; ok {
				changed = true
				return def
			}
			return name
		})
		if !changed {
			break
		}
	}
	for _, name := range symRe.FindAllString(t, -1) {
		if !lenSymRe.MatchString(name) {
			return false
		}
	}
	return !strings.Contains(t, "select")
}

// isModular: a contract that only carries loop annotations does not replace the body.
func (c *Contract) isModular() bool {
	return c.Assume || c.HasModifies || c.Pure || len(c.Requires)+len(c.Ensures) > 0
}
