package main

// Contract files: comment-only Go files (*_contracts_verif.go) in /repo with
// Gobra-style "//@" lines, plus /verif/contracts-lib/*.spec for assumed
// contracts. This file holds the data model, the file reader and the
// expression parser.

import (
	"fmt"
	"os"
	"path/filepath"
	"sort"
	"strings"
	"unicode"
)

type Node struct {
	Kind string // num str char ident bool nil unary binary call index slice field forall exists old ite let seq star
	Op   string
	Name string
	Val  string
	Args []*Node
	Vars []VarDecl
}

type VarDecl struct{ Name, Type string }

type Clause struct {
	Tags []string
	E    *Node
	Text string
	Src  string
}

type LoopSpec struct {
	Invariants []Clause
	Decreases  *Node
}

type Contract struct {
	Key         string
	Pkg         string // package path suffix the contract file belongs to
	Assume      bool
	ParamNames  []string
	Requires    []Clause
	Ensures     []Clause
	Modifies    []*Node
	HasModifies bool
	Decreases   *Node
	Loops       map[int]*LoopSpec
	ForallPars  []VarDecl
	FrameFresh  bool
	FrameTags   []string
	Pure        bool
	Src         string
	LockFree    []*Node  // mutexes that must not be held at environment calls and at return
	LockTags    []string
	Witness     []Clause // postconditions over the function's own locals: proved at its returns, never used at call sites
	Callback    []Clause // invariants of a callback the function hands to an iterator (FlagSet.Visit)
	modRefs     []string
	Trusted     string
}

type EnvSpec struct {
	Name     string
	Assumes  []Clause
	Modifies []*Node
	Log      bool
	Pkg      string
}

type PredDef struct {
	Name   string
	Params []VarDecl
	Ret    string
	Body   *Node
	Pkg    string
	Rec    bool // recursive spec function: uninterpreted symbol + defining axiom
	Unfold bool // no global defining axiom: one unfolding per application that the contracts mention
}

type GuardedBy struct {
	Lock   string   // e.g. "eventList.Mutex"
	Fields []string // e.g. "eventList.seqs"
	Pkg    string
	Tags   []string
}

type TableSpec struct {
	Kind string // table | layout | const
	Head string
	Body []string
	Pkg  string
	Src  string
	Tags []string
	diag []string
}

type SpecDB struct {
	Contracts map[string]*Contract
	Envs      map[string]*EnvSpec
	Preds     map[string]*PredDef
	Guards    []*GuardedBy
	AtomicOnly []*GuardedBy
	Tables    []*TableSpec
	Files     []string
	Errors    []string
}

func newSpecDB() *SpecDB {
	return &SpecDB{Contracts: map[string]*Contract{}, Envs: map[string]*EnvSpec{}, Preds: map[string]*PredDef{}}
}

func (db *SpecDB) contractFor(key string) *Contract {
	if db == nil {
		return nil
	}
	return db.Contracts[key]
}

func (db *SpecDB) envFor(name string) *EnvSpec {
	if db == nil {
		return nil
	}
	return db.Envs[name]
}

func (db *SpecDB) loopSpec(fnKey string, ordinal int) *LoopSpec {
	c := db.contractFor(fnKey)
	if c == nil || c.Loops == nil {
		return nil
	}
	return c.Loops[ordinal]
}

// loadSpecs reads every *_contracts_verif.go below repo and every *.spec in libDir.
func loadSpecs(repo, libDir string) *SpecDB {
	db := newSpecDB()
	var files []string
	filepath.Walk(repo, func(p string, info os.FileInfo, err error) error {
		if err != nil {
			return nil
		}
		if info.IsDir() && (info.Name() == ".git" || info.Name() == "testdata") {
			return filepath.SkipDir
		}
		if strings.HasSuffix(p, "contracts_verif.go") {
			files = append(files, p)
		}
		return nil
	})
	if libDir != "" {
		m, _ := filepath.Glob(filepath.Join(libDir, "*.spec"))
		files = append(files, m...)
	}
	sort.Strings(files)
	for _, f := range files {
		db.readFile(f, repo)
	}
	return db
}

var clauseKeywords = []string{"lockfree", "atomic_only", "rec", "func", "assume", "env", "pred", "spec", "table", "layout", "guarded_by", "requires", "ensures",
	"modifies", "decreases", "forall-params", "loop", "callback", "witness", "frame-fresh", "pure", "log", "consts", "trusted", "end"}

func startsWithKeyword(s string) string {
	for _, k := range clauseKeywords {
		if s == k || strings.HasPrefix(s, k+" ") || strings.HasPrefix(s, k+"[") {
			return k
		}
	}
	return ""
}

func (db *SpecDB) readFile(path, repo string) {
	data, err := os.ReadFile(path)
	if err != nil {
		db.Errors = append(db.Errors, err.Error())
		return
	}
	db.Files = append(db.Files, path)
	rel, _ := filepath.Rel(repo, filepath.Dir(path))
	pkg := rel
	if rel == "." {
		pkg = ""
	}
	// gather logical lines
	type ll struct {
		text string
		line int
	}
	var lines []ll
	for i, raw := range strings.Split(string(data), "\n") {
		t := strings.TrimSpace(raw)
		var body string
		switch {
		case strings.HasPrefix(t, "//@"):
			body = strings.TrimSpace(t[3:])
		case strings.HasSuffix(path, ".spec"):
			body = t
			if strings.HasPrefix(body, "#") {
				continue
			}
		default:
			continue
		}
		if j := strings.Index(body, " -- "); j >= 0 {
			body = strings.TrimSpace(body[:j])
		}
		if strings.HasPrefix(body, "--") || body == "" {
			continue
		}
		if startsWithKeyword(body) == "" && len(lines) > 0 {
			lines[len(lines)-1].text += " " + body
			continue
		}
		lines = append(lines, ll{body, i + 1})
	}
	var cur *Contract
	var curEnv *EnvSpec
	var curTable *TableSpec
	for _, l := range lines {
		src := fmt.Sprintf("%s:%d", strings.TrimPrefix(path, repo+"/"), l.line)
		kw := startsWithKeyword(l.text)
		rest := strings.TrimSpace(strings.TrimPrefix(l.text, kw))
		fail := func(err error) {
			db.Errors = append(db.Errors, fmt.Sprintf("%s: %v", src, err))
		}
		if curTable != nil && kw != "end" {
			curTable.Body = append(curTable.Body, l.text)
			continue
		}
		switch kw {
		case "end":
			curTable = nil
		case "func", "assume":
			assume := kw == "assume"
			if assume {
				rest = strings.TrimSpace(strings.TrimPrefix(rest, "func"))
			}
			key := rest
			var pnames []string
			if i := strings.LastIndex(rest, "("); i > 0 && strings.HasSuffix(rest, ")") && !strings.HasPrefix(rest[i:], "(*") && i > strings.LastIndex(rest, ".") {
				key = strings.TrimSpace(rest[:i])
				for _, p := range strings.Split(rest[i+1:len(rest)-1], ",") {
					if p = strings.TrimSpace(p); p != "" {
						pnames = append(pnames, p)
					}
				}
			}
			cur = &Contract{Key: key, Assume: assume, Pkg: pkg, Loops: map[int]*LoopSpec{}, Src: src, ParamNames: pnames}
			curEnv = nil
			if _, dup := db.Contracts[key]; dup {
				fail(fmt.Errorf("duplicate contract for %s", key))
			}
			db.Contracts[key] = cur
		case "env":
			curEnv = &EnvSpec{Name: rest, Pkg: pkg}
			cur = nil
			db.Envs[rest] = curEnv
		case "pred", "spec", "rec":
			unfold := false
			if kw == "rec" && strings.HasPrefix(rest, "unfold ") {
				unfold = true
				rest = strings.TrimSpace(strings.TrimPrefix(rest, "unfold "))
			}
			pd, err := parsePredDef(rest)
			if err != nil {
				fail(err)
				continue
			}
			pd.Pkg = pkg
			pd.Rec = kw == "rec"
			pd.Unfold = unfold
			db.Preds[pd.Name] = pd
		case "guarded_by":
			parts := strings.SplitN(rest, ":", 2)
			if len(parts) != 2 {
				fail(fmt.Errorf("guarded_by needs 'lock: fields'"))
				continue
			}
			head := strings.TrimSpace(parts[0])
			tags, head2 := splitTags(head)
			g := &GuardedBy{Lock: strings.TrimSpace(head2), Pkg: pkg, Tags: tags}
			for _, f := range strings.Split(parts[1], ",") {
				g.Fields = append(g.Fields, strings.TrimSpace(f))
			}
			db.Guards = append(db.Guards, g)
		case "table", "layout", "consts":
			tags, head := splitTags(rest)
			db.Tables = append(db.Tables, &TableSpec{Kind: kw, Head: strings.TrimSpace(head), Pkg: pkg, Src: src, Tags: tags})
		case "requires", "ensures":
			tags, body := splitTags(rest)
			n, err := parseExpr(body)
			if err != nil {
				fail(err)
				continue
			}
			cl := Clause{Tags: tags, E: n, Text: body, Src: src}
			if curEnv != nil {
				curEnv.Assumes = append(curEnv.Assumes, cl)
				continue
			}
			if cur == nil {
				fail(fmt.Errorf("clause outside a contract"))
				continue
			}
			if kw == "requires" {
				cur.Requires = append(cur.Requires, cl)
			} else {
				cur.Ensures = append(cur.Ensures, cl)
			}
		case "modifies":
			items, err := parseExprList(rest)
			if err != nil {
				fail(err)
				continue
			}
			if curEnv != nil {
				curEnv.Modifies = append(curEnv.Modifies, items...)
			} else if cur != nil {
				cur.Modifies = append(cur.Modifies, items...)
				cur.HasModifies = true
			}
		case "log":
			if curEnv != nil {
				curEnv.Log = true
			}
		case "decreases":
			n, err := parseExpr(rest)
			if err != nil {
				fail(err)
				continue
			}
			if cur != nil {
				cur.Decreases = n
			}
		case "forall-params":
			vars, err := parseVarDecls(rest)
			if err != nil {
				fail(err)
				continue
			}
			if cur != nil {
				cur.ForallPars = append(cur.ForallPars, vars...)
			}
		case "lockfree":
			tags, body := splitTags(rest)
			items, err := parseExprList(body)
			if err != nil {
				fail(err)
				continue
			}
			if cur != nil {
				cur.LockFree = append(cur.LockFree, items...)
				cur.LockTags = tags
			}
		case "atomic_only":
			tags, body := splitTags(rest)
			for _, f := range strings.Split(body, ",") {
				db.AtomicOnly = append(db.AtomicOnly, &GuardedBy{Lock: "", Fields: []string{strings.TrimSpace(f)}, Pkg: pkg, Tags: tags})
			}
		case "frame-fresh":
			tags, _ := splitTags(rest)
			if cur != nil {
				cur.FrameFresh = true
				cur.FrameTags = tags
			}
		case "pure":
			if cur != nil {
				cur.Pure = true
			}
		case "trusted":
			if cur != nil {
				cur.Trusted = rest
			}
		case "witness":
			if cur == nil {
				fail(fmt.Errorf("witness outside a function contract"))
				continue
			}
			tags, body := splitTags(rest)
			e, err := parseExpr(body)
			if err != nil {
				fail(err)
				continue
			}
			cur.Witness = append(cur.Witness, Clause{Tags: tags, E: e, Text: body, Src: src})
		case "callback":
			// callback invariant[tags] E
			after := strings.TrimSpace(rest)
			if cur == nil || !strings.HasPrefix(after, "invariant") {
				fail(fmt.Errorf("bad callback clause"))
				continue
			}
			tags, body := splitTags(strings.TrimPrefix(after, "invariant"))
			e, err := parseExpr(body)
			if err != nil {
				fail(err)
				continue
			}
			cur.Callback = append(cur.Callback, Clause{Tags: tags, E: e, Text: body, Src: src})
		case "loop":
			// loop N invariant[tags] E | loop N decreases E
			f := strings.Fields(rest)
			if len(f) < 3 || cur == nil {
				fail(fmt.Errorf("bad loop clause"))
				continue
			}
			var n int
			if _, err := fmt.Sscanf(f[0], "%d", &n); err != nil {
				fail(fmt.Errorf("bad loop ordinal %q", f[0]))
				continue
			}
			after := strings.TrimSpace(strings.TrimPrefix(strings.TrimSpace(rest), f[0]))
			ls := cur.Loops[n]
			if ls == nil {
				ls = &LoopSpec{}
				cur.Loops[n] = ls
			}
			switch {
			case strings.HasPrefix(after, "invariant"):
				tags, body := splitTags(strings.TrimPrefix(after, "invariant"))
				e, err := parseExpr(body)
				if err != nil {
					fail(err)
					continue
				}
				ls.Invariants = append(ls.Invariants, Clause{Tags: tags, E: e, Text: body, Src: src})
			case strings.HasPrefix(after, "decreases"):
				e, err := parseExpr(strings.TrimPrefix(after, "decreases"))
				if err != nil {
					fail(err)
					continue
				}
				ls.Decreases = e
			default:
				fail(fmt.Errorf("bad loop clause %q", after))
			}
		default:
			fail(fmt.Errorf("unrecognised line %q", l.text))
		}
	}
}

func splitTags(s string) ([]string, string) {
	s = strings.TrimSpace(s)
	if strings.HasPrefix(s, "[") {
		if j := strings.Index(s, "]"); j > 0 {
			var tags []string
			for _, t := range strings.Split(s[1:j], ",") {
				tags = append(tags, strings.TrimSpace(t))
			}
			return tags, strings.TrimSpace(s[j+1:])
		}
	}
	return nil, s
}

func parsePredDef(s string) (*PredDef, error) {
	i := strings.Index(s, ":=")
	if i < 0 {
		return nil, fmt.Errorf("pred/spec needs ':='")
	}
	head, body := strings.TrimSpace(s[:i]), strings.TrimSpace(s[i+2:])
	lp := strings.Index(head, "(")
	rp := strings.LastIndex(head, ")")
	if lp < 0 || rp < lp {
		return nil, fmt.Errorf("pred/spec needs a parameter list")
	}
	pd := &PredDef{Name: strings.TrimSpace(head[:lp]), Ret: strings.TrimSpace(head[rp+1:])}
	vars, err := parseVarDecls(head[lp+1 : rp])
	if err != nil {
		return nil, err
	}
	pd.Params = vars
	n, err := parseExpr(body)
	if err != nil {
		return nil, err
	}
	pd.Body = n
	return pd, nil
}

// parseVarDecls parses "a, b T, c U".
func parseVarDecls(s string) ([]VarDecl, error) {
	var out []VarDecl
	var pending []string
	for _, part := range strings.Split(s, ",") {
		f := strings.Fields(part)
		switch len(f) {
		case 0:
		case 1:
			pending = append(pending, f[0])
		default:
			typ := strings.Join(f[1:], " ")
			for _, p := range pending {
				out = append(out, VarDecl{p, typ})
			}
			pending = nil
			out = append(out, VarDecl{f[0], typ})
		}
	}
	for _, p := range pending {
		out = append(out, VarDecl{p, "int"})
	}
	return out, nil
}

// ---------------------------------------------------------------------------
// lexer

type tok struct {
	kind string // num str char id op eof
	val  string
}

func lex(s string) ([]tok, error) {
	var out []tok
	i := 0
	for i < len(s) {
		c := s[i]
		switch {
		case c == ' ' || c == '\t':
			i++
		case unicode.IsLetter(rune(c)) || c == '_':
			j := i
			for j < len(s) && (unicode.IsLetter(rune(s[j])) || unicode.IsDigit(rune(s[j])) || s[j] == '_') {
				j++
			}
			out = append(out, tok{"id", s[i:j]})
			i = j
		case c >= '0' && c <= '9':
			j := i
			for j < len(s) && (unicode.IsDigit(rune(s[j])) || unicode.IsLetter(rune(s[j])) || s[j] == '_') {
				j++
			}
			out = append(out, tok{"num", s[i:j]})
			i = j
		case c == '"':
			j := i + 1
			for j < len(s) && s[j] != '"' {
				if s[j] == '\\' {
					j++
				}
				j++
			}
			if j >= len(s) {
				return nil, fmt.Errorf("unterminated string")
			}
			out = append(out, tok{"str", s[i : j+1]})
			i = j + 1
		case c == '\'':
			j := i + 1
			for j < len(s) && s[j] != '\'' {
				if s[j] == '\\' {
					j++
				}
				j++
			}
			if j >= len(s) {
				return nil, fmt.Errorf("unterminated char")
			}
			out = append(out, tok{"char", s[i : j+1]})
			i = j + 1
		default:
			ops := []string{"<==>", "==>", "::", ":=", "==", "!=", "<=", ">=", "&&", "||", "++", "<<", ">>", "..",
				"<", ">", "+", "-", "*", "/", "%", "!", "(", ")", "[", "]", ",", ".", ":", "^", "{", "}", "&", "|"}
			matched := false
			for _, op := range ops {
				if strings.HasPrefix(s[i:], op) {
					out = append(out, tok{"op", op})
					i += len(op)
					matched = true
					break
				}
			}
			if !matched {
				return nil, fmt.Errorf("unexpected character %q", c)
			}
		}
	}
	out = append(out, tok{"eof", ""})
	return out, nil
}

// ---------------------------------------------------------------------------
// parser (precedence climbing)

type parser struct {
	toks []tok
	pos  int
}

func parseExpr(s string) (*Node, error) {
	toks, err := lex(s)
	if err != nil {
		return nil, fmt.Errorf("%v in %q", err, s)
	}
	p := &parser{toks: toks}
	n, err := p.expr()
	if err != nil {
		return nil, fmt.Errorf("%v in %q", err, s)
	}
	if p.peek().kind != "eof" {
		return nil, fmt.Errorf("unexpected %q in %q", p.peek().val, s)
	}
	return n, nil
}

func parseExprList(s string) ([]*Node, error) {
	toks, err := lex(s)
	if err != nil {
		return nil, err
	}
	p := &parser{toks: toks}
	var out []*Node
	for {
		n, err := p.expr()
		if err != nil {
			return nil, fmt.Errorf("%v in %q", err, s)
		}
		out = append(out, n)
		if p.isOp(",") {
			p.pos++
			continue
		}
		break
	}
	if p.peek().kind != "eof" {
		return nil, fmt.Errorf("unexpected %q in %q", p.peek().val, s)
	}
	return out, nil
}

func (p *parser) peek() tok { return p.toks[p.pos] }
func (p *parser) isOp(op string) bool {
	t := p.peek()
	return t.kind == "op" && t.val == op
}
func (p *parser) isId(id string) bool {
	t := p.peek()
	return t.kind == "id" && t.val == id
}
func (p *parser) expectOp(op string) error {
	if !p.isOp(op) {
		return fmt.Errorf("expected %q, found %q", op, p.peek().val)
	}
	p.pos++
	return nil
}

func (p *parser) expr() (*Node, error) {
	if p.isId("forall") || p.isId("exists") {
		kind := p.peek().val
		p.pos++
		// var decls up to '::'
		start := p.pos
		for !p.isOp("::") {
			if p.peek().kind == "eof" {
				return nil, fmt.Errorf("quantifier without '::'")
			}
			p.pos++
		}
		var sb strings.Builder
		for _, t := range p.toks[start:p.pos] {
			if t.kind == "op" && t.val == "," {
				sb.WriteString(", ")
			} else if t.kind == "op" {
				sb.WriteString(t.val)
			} else {
				sb.WriteString(" " + t.val)
			}
		}
		vars, err := parseVarDecls(sb.String())
		if err != nil {
			return nil, err
		}
		p.pos++ // ::
		body, err := p.expr()
		if err != nil {
			return nil, err
		}
		return &Node{Kind: kind, Vars: vars, Args: []*Node{body}}, nil
	}
	if p.isId("let") {
		p.pos++
		name := p.peek().val
		p.pos++
		if err := p.expectOp(":="); err != nil {
			return nil, err
		}
		v, err := p.iff()
		if err != nil {
			return nil, err
		}
		if !p.isId("in") {
			return nil, fmt.Errorf("let without in")
		}
		p.pos++
		body, err := p.expr()
		if err != nil {
			return nil, err
		}
		return &Node{Kind: "let", Name: name, Args: []*Node{v, body}}, nil
	}
	if p.isId("if") {
		p.pos++
		c, err := p.expr()
		if err != nil {
			return nil, err
		}
		if !p.isId("then") {
			return nil, fmt.Errorf("if without then")
		}
		p.pos++
		a, err := p.expr()
		if err != nil {
			return nil, err
		}
		if !p.isId("else") {
			return nil, fmt.Errorf("if without else")
		}
		p.pos++
		b, err := p.expr()
		if err != nil {
			return nil, err
		}
		return &Node{Kind: "ite", Args: []*Node{c, a, b}}, nil
	}
	return p.iff()
}

func (p *parser) iff() (*Node, error) {
	l, err := p.imp()
	if err != nil {
		return nil, err
	}
	for p.isOp("<==>") {
		p.pos++
		r, err := p.imp()
		if err != nil {
			return nil, err
		}
		l = &Node{Kind: "binary", Op: "<==>", Args: []*Node{l, r}}
	}
	return l, nil
}

func (p *parser) imp() (*Node, error) {
	l, err := p.or()
	if err != nil {
		return nil, err
	}
	if p.isOp("==>") {
		p.pos++
		var r *Node
		if p.isId("forall") || p.isId("exists") || p.isId("if") || p.isId("let") {
			r, err = p.expr()
		} else {
			r, err = p.imp()
		}
		if err != nil {
			return nil, err
		}
		return &Node{Kind: "binary", Op: "==>", Args: []*Node{l, r}}, nil
	}
	return l, nil
}

func (p *parser) or() (*Node, error) {
	l, err := p.and()
	if err != nil {
		return nil, err
	}
	for p.isOp("||") {
		p.pos++
		r, err := p.and()
		if err != nil {
			return nil, err
		}
		l = &Node{Kind: "binary", Op: "||", Args: []*Node{l, r}}
	}
	return l, nil
}

func (p *parser) and() (*Node, error) {
	l, err := p.cmp()
	if err != nil {
		return nil, err
	}
	for p.isOp("&&") {
		p.pos++
		var r *Node
		if p.isId("forall") || p.isId("exists") {
			r, err = p.expr()
		} else {
			r, err = p.cmp()
		}
		if err != nil {
			return nil, err
		}
		l = &Node{Kind: "binary", Op: "&&", Args: []*Node{l, r}}
	}
	return l, nil
}

func (p *parser) cmp() (*Node, error) {
	l, err := p.add()
	if err != nil {
		return nil, err
	}
	var chain *Node
	for {
		t := p.peek()
		isCmp := t.kind == "op" && (t.val == "==" || t.val == "!=" || t.val == "<" || t.val == "<=" || t.val == ">" || t.val == ">=")
		isIn := t.kind == "id" && t.val == "in"
		if !isCmp && !isIn {
			break
		}
		p.pos++
		r, err := p.add()
		if err != nil {
			return nil, err
		}
		op := t.val
		c := &Node{Kind: "binary", Op: op, Args: []*Node{l, r}}
		if chain == nil {
			chain = c
		} else {
			chain = &Node{Kind: "binary", Op: "&&", Args: []*Node{chain, c}}
		}
		l = r
	}
	if chain != nil {
		return chain, nil
	}
	return l, nil
}

func (p *parser) add() (*Node, error) {
	l, err := p.mul()
	if err != nil {
		return nil, err
	}
	for p.isOp("+") || p.isOp("-") || p.isOp("++") {
		op := p.peek().val
		p.pos++
		r, err := p.mul()
		if err != nil {
			return nil, err
		}
		l = &Node{Kind: "binary", Op: op, Args: []*Node{l, r}}
	}
	return l, nil
}

func (p *parser) mul() (*Node, error) {
	l, err := p.unary()
	if err != nil {
		return nil, err
	}
	for p.isOp("*") || p.isOp("/") || p.isOp("%") || p.isId("mod") || p.isId("div") || p.isOp("^") {
		op := p.peek().val
		p.pos++
		r, err := p.unary()
		if err != nil {
			return nil, err
		}
		l = &Node{Kind: "binary", Op: op, Args: []*Node{l, r}}
	}
	return l, nil
}

func (p *parser) unary() (*Node, error) {
	if p.isOp("!") || p.isOp("-") || p.isOp("*") {
		op := p.peek().val
		p.pos++
		x, err := p.unary()
		if err != nil {
			return nil, err
		}
		return &Node{Kind: "unary", Op: op, Args: []*Node{x}}, nil
	}
	return p.postfix()
}

func (p *parser) postfix() (*Node, error) {
	x, err := p.primary()
	if err != nil {
		return nil, err
	}
	for {
		switch {
		case p.isOp("."):
			p.pos++
			t := p.peek()
			if t.kind == "op" && t.val == "*" {
				p.pos++
				x = &Node{Kind: "field", Name: "*", Args: []*Node{x}}
				continue
			}
			if t.kind != "id" {
				return nil, fmt.Errorf("expected field name after '.'")
			}
			p.pos++
			x = &Node{Kind: "field", Name: t.val, Args: []*Node{x}}
		case p.isOp("["):
			p.pos++
			if p.isOp("*") {
				p.pos++
				if err := p.expectOp("]"); err != nil {
					return nil, err
				}
				x = &Node{Kind: "index", Args: []*Node{x, {Kind: "star"}}}
				continue
			}
			var lo, hi *Node
			if !p.isOp(":") {
				lo, err = p.expr()
				if err != nil {
					return nil, err
				}
			}
			if p.isOp(":") {
				p.pos++
				if !p.isOp("]") {
					hi, err = p.expr()
					if err != nil {
						return nil, err
					}
				}
				if err := p.expectOp("]"); err != nil {
					return nil, err
				}
				x = &Node{Kind: "slice", Args: []*Node{x, lo, hi}}
				continue
			}
			if err := p.expectOp("]"); err != nil {
				return nil, err
			}
			x = &Node{Kind: "index", Args: []*Node{x, lo}}
		case p.isOp("("):
			p.pos++
			var args []*Node
			for !p.isOp(")") {
				a, err := p.expr()
				if err != nil {
					return nil, err
				}
				args = append(args, a)
				if p.isOp(",") {
					p.pos++
				}
			}
			p.pos++
			x = &Node{Kind: "call", Args: append([]*Node{x}, args...)}
		default:
			return x, nil
		}
	}
}

func (p *parser) primary() (*Node, error) {
	t := p.peek()
	switch t.kind {
	case "num":
		p.pos++
		return &Node{Kind: "num", Val: t.val}, nil
	case "str":
		p.pos++
		return &Node{Kind: "str", Val: t.val}, nil
	case "char":
		p.pos++
		return &Node{Kind: "char", Val: t.val}, nil
	case "id":
		p.pos++
		switch t.val {
		case "true", "false":
			return &Node{Kind: "bool", Val: t.val}, nil
		case "nil":
			return &Node{Kind: "nil"}, nil
		}
		return &Node{Kind: "ident", Name: t.val}, nil
	case "op":
		if t.val == "(" {
			p.pos++
			x, err := p.expr()
			if err != nil {
				return nil, err
			}
			if err := p.expectOp(")"); err != nil {
				return nil, err
			}
			return x, nil
		}
	}
	return nil, fmt.Errorf("unexpected token %q", t.val)
}
