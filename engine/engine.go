package main

// Engine: program loading, per-program caches, verification units.

import (
	"path/filepath"
	"encoding/json"
	"sync"
	"fmt"
	"go/types"
	"os"
	"sort"
	"strings"

	"golang.org/x/tools/go/packages"
	"golang.org/x/tools/go/ssa"
	"golang.org/x/tools/go/ssa/ssautil"
)

type Engine struct {
	hints          map[string][]string // loop key -> candidate ids confirmed by an earlier run (accelerator)
	newHints       map[string][]string
	hintsMu        sync.Mutex
	prog           *ssa.Program
	pkgs           []*packages.Package
	spkgs          []*ssa.Package
	fnByKey        map[string]*ssa.Function
	modulePath     string
	specs          *SpecDB
	tids           map[string]int
	tidTypes       map[int]types.Type
	loopCache      map[*ssa.Function]*loopInfo
	simpleCache    map[*ssa.Alloc]bool
	hidden         map[ssa.Instruction]*ssa.Alloc
	inlineOverride map[string]bool
	allocBound     string
	sideQueries    int
	globals        map[*Exec][]string
	repoDir        string
	envKinds       map[string]int
	nonNilCache    map[*ssa.Global]bool
	verifDir       string
}

func loadEngine(repo string) (*Engine, error) {
	cfg := &packages.Config{Mode: packages.LoadAllSyntax, Dir: repo, BuildFlags: []string{"-tags=verif"},
		Env: append(os.Environ(), "GOFLAGS=-mod=mod", "GOPROXY=off", "GOSUMDB=off", "GOTOOLCHAIN=local")}
	pkgs, err := packages.Load(cfg, "./...")
	if err != nil {
		return nil, err
	}
	var errs []string
	packages.Visit(pkgs, nil, func(p *packages.Package) {
		for _, e := range p.Errors {
			errs = append(errs, e.Error())
		}
	})
	if len(errs) > 0 {
		return nil, fmt.Errorf("package errors: %s", strings.Join(errs, "; "))
	}
	prog, spkgs := ssautil.AllPackages(pkgs, ssa.NaiveForm|ssa.GlobalDebug)
	prog.Build()
	eng := &Engine{prog: prog, pkgs: pkgs, spkgs: spkgs, fnByKey: map[string]*ssa.Function{},
		modulePath: "github.com/elastic/go-libaudit/v2", tids: map[string]int{}, tidTypes: map[int]types.Type{},
		loopCache: map[*ssa.Function]*loopInfo{}, simpleCache: map[*ssa.Alloc]bool{}, hidden: map[ssa.Instruction]*ssa.Alloc{},
		nonNilCache: map[*ssa.Global]bool{}, inlineOverride: map[string]bool{}, globals: map[*Exec][]string{}, repoDir: repo}
	for f := range ssautil.AllFunctions(prog) {
		if eng.isModuleFn(f) {
			eng.fnByKey[shortFn(f)] = f
		}
	}
	return eng, nil
}

func (eng *Engine) globalNames(ex *Exec) []string    { return eng.globals[ex] }
func (eng *Engine) addGlobalName(ex *Exec, n string) { eng.globals[ex] = append(eng.globals[ex], n) }

// simpleAlloc: a local whose address never escapes can be kept as a cell.
func (eng *Engine) simpleAlloc(a *ssa.Alloc) bool {
	if r, ok := eng.simpleCache[a]; ok {
		return r
	}
	r := simpleUses(a, 0)
	eng.simpleCache[a] = r
	return r
}

func simpleUses(v ssa.Value, depth int) bool {
	refs := v.Referrers()
	if refs == nil {
		return false
	}
	for _, u := range *refs {
		switch x := u.(type) {
		case *ssa.DebugRef:
		case *ssa.Store:
			if x.Addr != v {
				return false // the address itself is stored somewhere
			}
		case *ssa.UnOp:
			if x.Op.String() != "*" {
				return false
			}
		case *ssa.FieldAddr:
			if x.X != v || !simpleUses(x, depth+1) {
				return false
			}
		case *ssa.IndexAddr:
			if x.X != v || !simpleUses(x, depth+1) {
				return false
			}
		default:
			return false
		}
	}
	return true
}

// hiddenAlloc returns a synthetic alloc used as the key of a ghost cell.
func (eng *Engine) hiddenAlloc(i ssa.Instruction) *ssa.Alloc {
	if a, ok := eng.hidden[i]; ok {
		return a
	}
	a := &ssa.Alloc{Comment: "iter"}
	eng.hidden[i] = a
	return a
}

func (eng *Engine) isSliceLenComp(c string) bool {
	_, l, ok := eng.compLeaf(c)
	return ok && l.Kind == lkSliceLen
}

var compTypes = map[string]types.Type{}

func (eng *Engine) compLeaf(c string) (types.Type, Leaf, bool) {
	p := strings.Split(c, "|")
	if len(p) != 3 {
		return nil, Leaf{}, false
	}
	t, ok := compTypes[p[1]]
	if !ok {
		return nil, Leaf{}, false
	}
	var k int
	fmt.Sscanf(p[2], "%d", &k)
	ls := flatten(t)
	if k >= len(ls) {
		return nil, Leaf{}, false
	}
	return t, ls[k], true
}

func (eng *Engine) compLeafName(c string) string {
	t, l, ok := eng.compLeaf(c)
	if !ok {
		return c
	}
	return types.TypeString(t, func(p *types.Package) string { return p.Name() }) + l.Name
}

func removeFile(f string) { os.Remove(f) }

// functionsInPackage lists module functions (incl. methods and closures) of a package directory.
func (eng *Engine) moduleFunctions() []*ssa.Function {
	var out []*ssa.Function
	for _, f := range eng.fnByKey {
		out = append(out, f)
	}
	sort.Slice(out, func(i, j int) bool { return out[i].String() < out[j].String() })
	return out
}

func (eng *Engine) isModuleFn(f *ssa.Function) bool {
	if f.Pkg == nil {
		if f.Parent() != nil {
			return eng.isModuleFn(f.Parent())
		}
		if o := f.Object(); o != nil && o.Pkg() != nil {
			return strings.HasPrefix(o.Pkg().Path(), eng.modulePath)
		}
		return false
	}
	return strings.HasPrefix(f.Pkg.Pkg.Path(), eng.modulePath)
}

// nonNilGlobal: package-level error / pointer variables that are assigned a
// non-nil value in their package initialiser and nowhere else in the module.
func (eng *Engine) nonNilGlobal(g *ssa.Global) bool {
	if r, ok := eng.nonNilCache[g]; ok {
		return r
	}
	r := false
	elem := g.Type().Underlying().(*types.Pointer).Elem()
	_, isIface := elem.Underlying().(*types.Interface)
	_, isPtr := elem.Underlying().(*types.Pointer)
	_, isMap := elem.Underlying().(*types.Map)
	if isIface || isPtr || isMap {
		if !eng.isModulePkg(g.Pkg) {
			// exported sentinels of other packages (io.ErrUnexpectedEOF, strconv.ErrSyntax, ...)
			r = isIface && types.Identical(elem, eng.errorType())
		} else {
			stores, good := 0, 0
			for _, f := range eng.moduleFunctions() {
				for _, b := range f.Blocks {
					for _, ins := range b.Instrs {
						st, ok := ins.(*ssa.Store)
						if !ok || st.Addr != g {
							continue
						}
						stores++
						if f.Name() == "init" || strings.HasPrefix(f.Name(), "init#") {
							switch v := st.Val.(type) {
							case *ssa.Call:
								if c := v.Call.StaticCallee(); c != nil {
									n := c.String()
									if n == "errors.New" || n == "fmt.Errorf" || n == "regexp.MustCompile" {
										good++
									}
								}
							case *ssa.MakeMap, *ssa.Alloc, *ssa.MakeInterface:
								good++
							}
						}
					}
				}
			}
			r = stores > 0 && stores == good
		}
	}
	eng.nonNilCache[g] = r
	return r
}

func (eng *Engine) isModulePkg(p *ssa.Package) bool {
	return p != nil && strings.HasPrefix(p.Pkg.Path(), eng.modulePath)
}

// loadHints reads the Houdini hints file (missing file: no hints).
func (eng *Engine) loadHints(path string) {
	eng.hints = map[string][]string{}
	eng.newHints = map[string][]string{}
	data, err := os.ReadFile(path)
	if err != nil {
		return
	}
	json.Unmarshal(data, &eng.hints)
}

// saveHints merges the sets confirmed in this run into the hints file.
func (eng *Engine) saveHints(path string) error {
	out := map[string][]string{}
	if data, err := os.ReadFile(path); err == nil {
		json.Unmarshal(data, &out)
	}
	for k, v := range eng.newHints {
		out[k] = v
	}
	data, _ := json.MarshalIndent(out, "", " ")
	os.MkdirAll(filepath.Dir(path), 0o755)
	return os.WriteFile(path, data, 0o644)
}
